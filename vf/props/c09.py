"""C09 -- conditional inclusion keeps exactly the groups a conforming preprocessor keeps.

Observation: the marker declarations (one per text segment between directives) that survive `parse_file -E`, its exit
status and its diagnostics.  Authority: `g++ -E -P -std=c++2b` on the same file, cross-checked by the generator's own
ground truth (a small model of C17 6.10.1 for the enumerated sequences; the generator's bookkeeping of the macro state
along the taken path for the random trees).  The two references must agree or the sequence is inconclusive.

Families:
  exh   every well-nested directive sequence up to D directives / nesting 3 over the alphabet of condgen, under three
        preludes; 100 (sequence, prelude) pairs per file, a mismatching file is re-run one sequence per file.
  side  every such sequence (smaller D) x every group x one of {define, undef, #error, #include} placed in that group:
        skipped groups must have no effect (macro state probed afterwards, no include, no diagnostic, exit 0), taken
        groups must have theirs.
  rand  deeper random trees with exprgen conditions (macros, defined, __has_include, undefined identifiers, every
        literal form), directive spelling variations, hostile content in skipped groups.
"""
import os
import random
import re
import shutil

from vf import core, tools
from vf.gen import condgen as C
from vf.gen import exprgen as E

LEVEL = "exploration"
PID = "C09"
BATCH = 100
MAX_EXPLAINED = 6          # failing units confirmed + minimised per case (part of the enumeration)
MARK = re.compile(r"\b(s\d+_(?:\d+|pd|pv|inc)|cm_\d+|ct_\d+_[tf])\b")
DIAG = re.compile(r"^(?:[^\s:]+):(\d+):(\d+): (error|warning): (.*)$", re.M)
GXX = ["g++", "-E", "-P", "-x", "c++", "-std=c++2b"]
# no stack symbolisation: only how a run ended matters here, and symbolising an abort costs ~10x the run itself
FASTENV = {"ASAN_OPTIONS": core.SAN_ENV["ASAN_OPTIONS"] + ":symbolize=0", "UBSAN_OPTIONS": "print_stacktrace=0"}


def prepare(chk):
    core.build("asan")


def _built():
    root = os.path.join(core.CACHE, "asan")
    b = core.Built("asan", root, os.path.join(core.CACHE, "src"))
    if not os.path.exists(b.parse_file):
        b = core.build("asan")
    return b


class Pair:
    """result of running both preprocessors on one file"""

    def __init__(self, d, name, text, incdirs=(), ref=True):
        self.path = os.path.join(d, name)
        open(self.path, "w").write(text)
        b = _built()
        if not isinstance(incdirs, dict):
            incdirs = {"S": list(incdirs), "I": []}
        pinc = ["-I" + i for i in incdirs["I"]] + ["-S" + i for i in incdirs["S"]]
        ginc = ["-I" + i for i in incdirs["I"]] + [x for i in incdirs["S"] for x in ("-isystem", i)]
        self.pf = tools.parse_file(b, [self.path], opts=["-E"], defs=(), cwd=d, timeout=30, env=FASTENV, incs=pinc)
        if self.pf.timed_out:
            self.pf = tools.parse_file(b, [self.path], opts=["-E"], defs=(), cwd=d, timeout=60, env=FASTENV,
                                       incs=pinc)
        self.got = MARK.findall(self.pf.out)
        if ref:
            self.ref = core.run(GXX + ginc + [self.path], timeout=60, cwd=d)
            self.exp = MARK.findall(self.ref.out)
        self.diags = [(int(m.group(1)), m.group(3), m.group(4)) for m in DIAG.finditer(self.pf.err)]

    def pf_state(self):
        if self.pf.timed_out:
            return "timeout"
        if self.pf.died():
            return "died:" + self.pf.how()
        if "Finished parsing." not in self.pf.err and "Error in preprocessing." not in self.pf.err:
            m = re.search(r"runtime error: ([a-z -]+)", self.pf.err)
            return "died:ubsan-" + (m.group(1).strip().replace(" ", "-") if m else "exit-%s" % self.pf.rc)
        return None


def by_seq(markers):
    out = {}
    for m in markers:
        tag, _, k = m.partition("_")
        out.setdefault(tag, []).append(k)
    return out


# ---------------------------------------------------------------------------
# exhaustive families
# ---------------------------------------------------------------------------

def seqs_of_part(case):
    part = case["part"]
    if part[0] == "done":
        return [tuple(s) for s in part[1]]
    return C.completions(tuple(part[1]), case["D"])


INJ = {"define": ["#undef A", "#define A 1"], "undef": ["#undef A"], "error": ["#error injected"],
       "include": None}
# text that must be inert wherever it stands (taken or skipped group): comments of every shape, and string / character
# literals that contain comment openers and directive text.  g++ is the oracle; the model says "no effect at all".
CONTENT = {
    "c-star1": ["/* doc */"],
    "c-star2": ["/** doc **/"],
    "c-star3": ["/*** doc ***/"],
    "c-star4": ["/* doc ****/"],
    "c-star5": ["/***** doc *****/"],
    "c-empty": ["/**/ /***/ /****/ /*****/"],
    "c-slashes": ["/*/ tricky /*/ /* // */"],
    "c-directive": ["/* #else", "#endif", "#elif 1 */"],
    "c-banner": ["/*****", " * #else", " * #endif", " ****/"],
    "c-doc-even": ["/** #endif **/ /** #else", " **/"],
    "c-adjacent": ["int q1; /* a *//* b **//** c */ int q2;"],
    "cpp-text": ["// #endif #else /* not closed"],
    "cpp-bs": ["// continued on the next line \\", "#else"],
    "cpp-bs-text": ["int q3; // continued \\", "   #endif */ /*"],
    "str-copen": ['const char *q4 = "/* #endif";'],
    "str-cclose": ['const char *q5 = "*/"; /* c */'],
    "str-cpp": ['const char *q6 = "// #else"; char q7 = \'"\'; const char *q8 = "#endif";'],
    "chr-slash": ["char q9 = '/'; char q10 = '*'; int q11 = 6/*c*/ /3;"],
}
INJ.update(CONTENT)


def side_model(seq, a, seg, kind):
    """ground truth with one injection in segment `seg`: -> (surviving markers incl. 'inc', final a, seg active)"""
    def truth(code, a):
        k = code % 5
        return [False, True, bool(a), a is not None, a is None][k]
    out = ["0"]
    st = []
    active = True
    segact = None

    def visit(k):
        nonlocal a, segact
        if k == seg:
            segact = active
            if active:
                if kind == "define":
                    a = 1
                elif kind == "undef":
                    a = None
                elif kind == "include":
                    out.append("inc")
    visit(0)
    for i, c in enumerate(seq):
        if c < 5:
            t = active and truth(c, a)
            st.append([active, t, t])
            active = t
        elif c < 10:
            f = st[-1]
            if f[0] and not f[1] and truth(c, a):
                f[1] = f[2] = True
            else:
                f[2] = False
            active = f[2]
        elif c == C.ELSE:
            f = st[-1]
            f[2] = f[0] and not f[1]
            f[1] = f[1] or f[2]
            active = f[2]
        else:
            active = st.pop()[0]
        if active:
            out.append(str(i + 1))
        visit(i + 1)
    return out, a, segact


def unit_lines(u, tag):
    """u = (seq, prelude, inject) ; inject = None | (seg, kind)"""
    seq, p, inj = u
    lines = C.prelude_lines(p)
    il = None
    if inj:
        seg, kind = inj
        il = (seg, INJ[kind] if INJ[kind] else ['#include "inc_%s.h"' % tag])
    lines += C.render(seq, tag, il)
    if inj:
        lines += ["#ifdef A", "int %s_pd;" % tag, "#if A", "int %s_pv;" % tag, "#endif", "#endif"]
    return lines


def unit_truth(u):
    seq, p, inj = u
    a = C.a_value(p)
    if not inj:
        return [str(k) for k in C.survivors(seq, a)], None
    out, a2, segact = side_model(seq, a, inj[0], inj[1])
    if a2 is not None:
        out.append("pd")
        if a2:
            out.append("pv")
    return out, segact


def run_units(ctx, case, res, units, family):
    """units: list of (seq, prelude, inject).  Batched BATCH per file; mismatching files re-run one unit per file."""
    d = ctx.casedir(case["id"])
    nfile = 0
    for j in range(BATCH):
        p = os.path.join(d, "inc_s%d.h" % j)
        if family == "side" and not os.path.exists(p):
            open(p, "w").write("int s%d_inc;\n" % j)
    for start in range(0, len(units), BATCH):
        chunk = units[start:start + BATCH]
        nfile += 1
        lines = []
        spans = []
        for j, u in enumerate(chunk):
            a = len(lines) + 1
            lines += unit_lines(u, "s%d" % j)
            spans.append((a, len(lines)))
        pr = Pair(d, "b%d.h" % nfile, "\n".join(lines) + "\n")
        res.count("files")
        got, exp = by_seq(pr.got), by_seq(pr.exp)
        bad_proc = pr.pf_state() or (("exit:%d" % pr.pf.rc) if pr.pf.rc != 0 else None)
        suspects = []
        for j, u in enumerate(chunk):
            tag = "s%d" % j
            truth, segact = unit_truth(u)
            if exp.get(tag, []) != truth:
                res.count("references_disagree")
                res.inconclusive = res.inconclusive or "references disagree"
                continue
            dg = [x for x in pr.diags if spans[j][0] <= x[0] <= spans[j][1]]
            if got.get(tag, []) != truth or dg or bad_proc:
                suspects.append((j, u))
            else:
                note_unit(res, u, family)
        if not suspects:
            continue
        for j, u in suspects:
            if u[2] and u[2][1] in CONTENT:
                # inert-text units are keyed by (text kind, group kept or not): two confirmed witnesses per class and
                # case are enough, and they must not use up the budget of the other families
                cls = "content_examined:%s@%s" % (u[2][1], unit_truth(u)[1])
                if res.counters.get(cls, 0) >= 2:
                    res.count("content_suspects_not_examined")
                    continue
                res.count(cls)
                confirm_unit(ctx, d, res, u, family, counted=False)
                continue
            if res.counters.get("failing_sequences", 0) >= MAX_EXPLAINED:
                # enough confirmed and minimised failures from this part; the rest is counted, not examined (nothing
                # is reported without having been confirmed alone)
                res.count("suspects_not_examined")
                continue
            confirm_unit(ctx, d, res, u, family)


def note_unit(res, u, family):
    seq, p, inj = u
    res.count("sequences_checked")
    if family == "exh":
        res.features.add("".join("%x" % c for c in seq))
    else:
        res.features.add("side:%s:%s" % (inj[1], C.shape(seq)))


def unit_fails(d, u, name="one.h"):
    """run one unit alone -> None (fine) | (category, detail) ; 'inconclusive' when the references disagree"""
    lines = unit_lines(u, "s0")
    if not os.path.exists(os.path.join(d, "inc_s0.h")):
        open(os.path.join(d, "inc_s0.h"), "w").write("int s0_inc;\n")
    pr = Pair(d, name, "\n".join(lines) + "\n")
    truth, segact = unit_truth(u)
    exp = by_seq(pr.exp).get("s0", [])
    if exp != truth:
        return ("inconclusive", "")
    st = pr.pf_state()
    if st == "timeout" or pr.ref.timed_out:
        return ("inconclusive", "")     # the statement does not promise termination in bounded time (C15 does)
    if st:
        return (st, "")
    got = by_seq(pr.got).get("s0", [])
    if got != truth:
        return ("wrong-group", "missing" if len(got) < len(truth) else "extra" if len(got) > len(truth) else "other")
    if pr.diags:
        return ("diagnostic", pr.diags[0][1])
    if pr.pf.rc != 0:
        return ("exit-status", str(pr.pf.rc))
    return None


def confirm_unit(ctx, d, res, u, family, counted=True):
    f = unit_fails(d, u)
    if f is None:
        # fine alone: the batch was desynchronised by a neighbour (which is itself reported) or by the batching
        res.count("suspects_cleared_alone")
        note_unit(res, u, family)
        return
    if f[0] == "inconclusive":
        res.count("references_disagree")
        return
    seq, p, inj = u
    # structural minimisation: smaller sequences (same prelude / same injection kind re-placed) that fail the same way
    cur, curf = u, f
    improved = True
    tests = 0
    while improved and tests < 60:
        improved = False
        for s2 in C.reductions(cur[0]):
            cands = [(s2, p, None)] if not inj else [(s2, p, (g, inj[1])) for g in range(1, len(s2) + 1)
                                                       if s2[g - 1] != C.ENDIF]
            for c in cands:
                tests += 1
                f2 = unit_fails(d, c, "min.h")
                if f2 is not None and f2[0] == curf[0]:
                    cur, curf, improved = c, f2, True
                    break
            if improved:
                break
    mseq, mp, minj = cur
    pname = {None: "undef", "0": "zero", "1": "one"}[mp]
    key = "%s:%s:seq=%s:A=%s" % (curf[0], family, C.shape(mseq).replace(" ", ","), pname)
    if minj:
        truth, segact = unit_truth(cur)
        key += ":inject=%s@%s" % (minj[1], "taken" if segact else "skipped")
        if minj[1] in CONTENT:
            # inert text that is not inert: what matters is the text and whether its group is kept, not the skeleton
            key = "%s:content=%s@%s" % (curf[0], minj[1], "taken" if segact else "skipped")
    res.count("failing_sequences" if counted else "failing_content_units")
    res.features.add("failure:" + key)
    res.violation(key, witness="\n".join(unit_lines(cur, "s0")), original="\n".join(unit_lines(u, "s0"))[:600],
                  detail=curf[1],
                  replay_case=dict(id="w", kind="unit", seq=list(mseq), prelude=mp, family=family,
                                   inject=list(minj) if minj else None))


def run_exh(ctx, case, res):
    units = []
    for seq in seqs_of_part(case):
        for _, p in C.PRELUDES:
            units.append((seq, p, None))
    run_units(ctx, case, res, units, "exh")
    res.count("exhaustive_sequences", len(units) // 3)
    if res.sample is None and units:
        u = units[len(units) // 2]
        res.sample = dict(family="exh", text="\n".join(unit_lines(u, "s0")), survivors=unit_truth(u)[0])


def run_side(ctx, case, res):
    units = []
    for seq in seqs_of_part(case):
        for _, p in C.PRELUDES:
            for g in range(1, len(seq) + 1):
                if seq[g - 1] == C.ENDIF:
                    continue
                for kind in ("define", "undef", "error", "include") + tuple(sorted(CONTENT)):
                    u = (seq, p, (g, kind))
                    if kind == "error" and unit_truth(u)[1]:
                        continue        # an #error in a taken group is supposed to be acted upon: not this family
                    units.append(u)
    run_units(ctx, case, res, units, "side")
    res.count("side_effect_variants", len(units))
    if res.sample is None and units:
        u = units[len(units) // 2]
        res.sample = dict(family="side", text="\n".join(unit_lines(u, "s0")), survivors=unit_truth(u)[0])


# ---------------------------------------------------------------------------
# random tier
# ---------------------------------------------------------------------------

# where a header exists -> what __has_include must say.  interrogate's documented lookup (find_include): "x" = cwd, the
# includer's directory, then -I and -S directories; <x> = -S directories only.  g++: "x" = includer's directory, -I,
# -isystem; <x> = -I, -isystem.  Only combinations on which the two rules agree are generated:
#   includer's dir: "x" yes, <x> no      -I dir: "x" yes (<x>: they differ)     -S/-isystem dir: both yes
#   cwd only:       <x> no ("x": they differ)                                    nowhere: both no
HASINCS = [('"present_c09.h"', True), ("<present_c09.h>", False), ('"qi_c09.h"', True), ('"sys_c09.h"', True),
           ("<sys_c09.h>", True), ("<cwd_c09.h>", False), ('"absent_c09.h"', False), ("<absent_c09>", False)]
RDIR = "proj"          # the generated file lives in <case dir>/proj, the tools run with cwd = <case dir>


def setup_incs(d):
    for sub in (RDIR, "quoteinc", "sysinc"):
        os.makedirs(os.path.join(d, sub), exist_ok=True)
    open(os.path.join(d, "cwd_c09.h"), "w").write("/* only in the working directory */\n")
    open(os.path.join(d, RDIR, "present_c09.h"), "w").write("/* next to the includer */\n")
    open(os.path.join(d, "quoteinc", "qi_c09.h"), "w").write("/* on -I */\n")
    open(os.path.join(d, "sysinc", "sys_c09.h"), "w").write("/* on -S / -isystem */\n")
    return {"S": [os.path.join(d, "sysinc")], "I": [os.path.join(d, "quoteinc")]}


def gen_rand(case):
    rng = random.Random("C09r:%s" % case["subseed"])
    prof = case.get("profile", {})
    return C.RandomFile(rng, budget=prof.get("budget", 14), maxdepth=prof.get("maxdepth", 5), hasincs=HASINCS,
                        lit_forms=prof.get("lit_forms"), spelling=prof.get("spelling", True),
                        junk=prof.get("junk", True))


def run_rand(ctx, case, res):
    d = ctx.casedir(case["id"])
    incs = setup_incs(d)
    f = gen_rand(case)
    text = "\n".join(f.lines) + "\n"
    pr = Pair(d, RDIR + "/r.h", text, incs)
    res.count("files")
    if pr.exp != f.truth or pr.ref.rc != 0:
        res.inconclusive = "references disagree"
        res.count("references_disagree")
        res.sample = dict(family="rand", note="g++ and the generator disagree", text=text[:1500])
        return
    st = pr.pf_state()
    if st == "timeout":
        res.inconclusive = "watchdog"
        res.count("timeouts")
        return
    in_skipped = [x for x in pr.diags if any(a <= x[0] <= b for a, b in f.skipped)]
    other_err = [x for x in pr.diags if x[1] == "error" and x not in in_skipped]
    res.count("conditions_evaluated", sum(1 for c in f.conds if c["evaluated"]))
    res.count("conditions_unevaluated", sum(1 for c in f.conds if not c["evaluated"]))
    if st is None and pr.got == f.truth and not in_skipped and not other_err and pr.pf.rc == 0:
        res.count("trees_equal")
        res.features |= f.features
        for c in f.conds:
            if c["evaluated"] and c.get("node") is not None:
                res.features |= {"cond:" + x for x in E.features(c["node"])}
        if res.sample is None:
            res.sample = dict(family="rand", text=text[:1500], survivors=f.truth)
        return
    explain_rand(ctx, d, incs, res, f, pr, st, in_skipped, other_err)


def section(rec, k, line=None, node=None, value=None):
    """a standalone test of one evaluated condition under the macro state it saw: marker ct_<k>_t / ct_<k>_f"""
    lines = ["#undef " + m for m in C.MACROS]
    for nm, body in sorted(rec["state"].items()):
        lines.append(("#define %s %s" % (nm, body)).rstrip())
    if node is not None:
        # (rendered as densely as the original condition: blanks between tokens can matter to a string-based expander)
        lines.append("#if " + E.render(["bin", "==", ["par", node], value], 2, tight=bool(rec.get("tight"))))
    else:
        ln = line if line is not None else rec["text"]
        ln = re.sub(r"^(\s*#\s*)el(if|ifdef|ifndef)\b", lambda m: m.group(1) + m.group(2), ln)
        lines.append(ln)
    lines += ["int ct_%d_t;" % k, "#else", "int ct_%d_f;" % k, "#endif"]
    return lines


def canonical_line(rec):
    w = rec["word"].replace("el", "", 1) if rec["word"].startswith("el") else rec["word"]
    if rec["kind"] == "ifdef":
        return "#%s %s" % (w, rec["name"])
    return "#if " + E.render(rec["node"], 2, tight=bool(rec.get("tight")))


def plain(v):
    """plain decimal spelling of a value (parenthesised unary minus for negatives)."""
    if v >= 0:
        return ["lit", str(v), v, "i"]
    if v == E.INT_MIN:
        return ["par", ["bin", "-", ["un", "-", ["lit", str(E.INT_MAX), E.INT_MAX, "i"]], ["lit", "1", 1, "i"]]]
    return ["par", ["un", "-", ["lit", str(-v), -v, "i"]]]


def run_sections(d, incs, secs, name, res=None):
    """secs: list of (k, lines, expected bool) -> {k: 'ok'|'wrong'|'died:<how>'|'inconclusive'}.
    Sections are independent (each resets the macro state).  When the process does not survive the file, the first
    section that kills it is found by bisection on the prefix, recorded, removed, and the rest is run again."""
    out = {}
    todo = list(secs)
    n = 0
    while todo:
        n += 1
        lines = []
        for k, ls, exp in todo:
            lines += ls
        pr = Pair(d, "%s/%s_%d.h" % (RDIR, name, n), "\n".join(lines) + "\n", incs)
        st = pr.pf_state()
        if st == "timeout":
            for k, ls, exp in todo:
                out[k] = "inconclusive"
            break
        if st is None:
            g, e = set(pr.got), set(pr.exp)
            for k, ls, exp in todo:
                want = "ct_%d_%s" % (k, "t" if exp else "f")
                other = "ct_%d_%s" % (k, "f" if exp else "t")
                if want not in e or other in e:
                    out[k] = "inconclusive"
                elif want not in g or other in g:
                    out[k] = "wrong"
                else:
                    out[k] = "ok"
            break
        lo, hi = 0, len(todo)          # prefix of length lo survives, of length hi does not
        while hi - lo > 1:
            mid = (lo + hi) // 2
            lines = []
            for k, ls, exp in todo[:mid]:
                lines += ls
            n += 1
            p2 = Pair(d, "%s/%s_%d.h" % (RDIR, name, n), "\n".join(lines) + "\n", incs, ref=False)
            if p2.pf_state() in (None, "timeout"):
                lo = mid
            else:
                hi, st = mid, p2.pf_state()
        out[todo[hi - 1][0]] = st
        todo = todo[:hi - 1] + todo[hi:]
    return out


def incontext_sig(lf):
    """coarse class of a literal that is read correctly on its own but breaks the expression around it"""
    f = E.lit_feats(lf)
    if "sep" in f:
        return "sep"
    return ",".join([f[0]] + (["suffix"] if any(x.startswith("suffix=") for x in f) else []))


def fold(sig):
    return re.sub(r"suffix=[ul]+", "suffix", sig)


def explain_rand(ctx, d, incs, res, f, pr, st, in_skipped, other_err):
    text = "\n".join(f.lines)
    res.count("failing_trees")
    # A. every evaluated condition on its own, under the macro state it saw, exactly as spelled
    ev = [c for c in f.conds if c["evaluated"]]
    out = run_sections(d, incs, [(k, section(c, k), c["value"]) for k, c in enumerate(ev)], "A")
    bad = [k for k in sorted(out) if out[k] not in ("ok", "inconclusive")]
    reported = set()

    def rep(key, **kw):
        if key not in reported:
            reported.add(key)
            res.features.add("failure:" + key)
            w = kw.get("witness", "")
            # a stand-alone section is its own replay; otherwise the whole generated file is
            kw["replay_case"] = dict(id="w", kind="text", key=key,
                                     text=(w + "\n") if w.startswith("#undef") else text + "\n")
            res.violation(key, **kw)

    if bad:
        def kids(n, k):
            if n[0] == "ref" and n[1] == "macro" and n[2] in ev[k].get("bodies", {}):
                return [ev[k]["bodies"][n[2]]]      # look inside the macro's replacement list
            return E.children(n)

        def walk(n, k, acc):
            for ch in kids(n, k):
                walk(ch, k, acc)
            acc.append(n)
            return acc

        def probe(triples, name):
            """triples: (cond index, node) -> {(k, text): outcome}, each node compared with its value"""
            uniq, seen = [], set()
            for k, n in triples:
                t = (k, E.render(n, 2))
                if t not in seen and E.try_eval(n) is not None:
                    seen.add(t)
                    uniq.append((k, n))
            o = run_sections(d, incs, [(j, section(ev[k], j, node=n, value=plain(E.evaluate(n)[0])), True)
                                       for j, (k, n) in enumerate(uniq)], name)
            return {(k, E.render(n, 2)): o[j] for j, (k, n) in enumerate(uniq)}

        isbad = lambda o: o not in ("ok", "inconclusive", None)
        minimal = []         # (cond index, node, outcome)
        # B. the leaves of the failing #if conditions (most failures are a mis-read literal; leaves do not take
        #    the process down, operators fed with a wrong operand may)
        ifs = [k for k in bad if ev[k]["kind"] == "if"]
        oc = probe([(k, n) for k in ifs for n in walk(ev[k]["node"], k, []) if not kids(n, k)], "B")
        rest = []
        for k in bad:
            wl = [n for n in walk(ev[k]["node"], k, []) if not kids(n, k) and isbad(oc.get((k, E.render(n, 2))))] \
                if k in ifs else []
            if wl:
                minimal.append((k, wl[0], oc[(k, E.render(wl[0], 2))]))
            else:
                rest.append(k)
        # C. the others in canonical spelling: is it the way the directive is written?
        outC = run_sections(d, incs, [(k, section(ev[k], k, line=canonical_line(ev[k])), ev[k]["value"])
                                      for k in rest], "C") if rest else {}
        still = []
        for k in rest:
            c = ev[k]
            if outC.get(k) == "ok":
                rep("%s:spelling=%s:dir=%s" % (cat(out[k]), spelling_feats(c), c["word"]),
                    witness="\n".join(section(c, k)), directive=c["text"], expected=c["value"])
            elif c["kind"] == "ifdef":
                rep("%s:dir=%s:defined=%s" % (cat(outC[k]), c["word"].replace("el", "", 1) if
                                              c["word"].startswith("el") else c["word"], c["name"] in c["state"]),
                    witness="\n".join(section(c, k, line=canonical_line(c))), directive=c["text"],
                    expected=c["value"])
            else:
                still.append(k)
        # D. their inner nodes, each compared with its value
        if still:
            oc.update(probe([(k, n) for k in still for n in walk(ev[k]["node"], k, []) if kids(n, k)], "D"))
        for k in still:
            cur = ev[k]["node"]
            if not isbad(oc.get((k, E.render(cur, 2)))):
                rep("%s:cond=%s:whole" % (cat(outC[k]), fold(E.root_sig(cur))),
                    witness="\n".join(section(ev[k], k, line=canonical_line(ev[k]))), directive=ev[k]["text"],
                    expected=ev[k]["value"])
                continue
            while True:
                b2 = [ch for ch in kids(cur, k) if isbad(oc.get((k, E.render(ch, 2))))]
                if not b2:
                    break
                same = [ch for ch in b2 if oc[(k, E.render(ch, 2))] == oc[(k, E.render(cur, 2))]]
                cur = (same or b2)[0]
            minimal.append((k, cur, oc[(k, E.render(cur, 2))]))
        # E. simplest failing spelling of a minimal literal; for a minimal operator node: does it still fail when all
        #    its literals are spelled as plain decimals?  if not, which literal is it that breaks its context?
        extra = []           # (id, index into minimal, tag, node)
        for i, (k, n, o) in enumerate(minimal):
            if n[0] == "lit":
                for red in reversed(E.literal_reductions(n)):
                    extra.append((len(extra), i, "red", red))
            else:
                # operands replaced by the plain literals of their values: does the operator itself fail?
                vals = n
                for ci, ch in enumerate(E.children(n)):
                    v = E.try_eval(ch)
                    if v is not None:
                        vals = replace_at(vals, [SLOTS[n[0]][ci]], plain(v[0]))
                if vals != n:
                    extra.append((len(extra), i, "values", vals))
                paths = [p for p, lf in leaves(n) if lf[0] == "lit" and plain(lf[2]) != lf]
                if paths:
                    allp = n
                    for pth in paths:
                        allp = replace_at(allp, list(pth), plain(node_at(n, pth)[2]))
                    extra.append((len(extra), i, "allplain", allp))
                    for pth in paths:
                        extra.append((len(extra), i, ("one", pth), replace_at(n, list(pth), plain(node_at(n, pth)[2]))))
        # a macro reference whose replacement list is fine when written out in the #if itself: which part of the
        # replacement list is it that the *definition* gets wrong?
        bodyprobes = []      # (id, index into minimal, sub-expression of the body)
        for i, (k, n, o) in enumerate(minimal):
            if n[0] == "ref" and n[1] == "macro" and n[2] in ev[k].get("bodies", {}):
                seen = set()
                for sub in E.subexprs(ev[k]["bodies"][n[2]]):
                    t = E.render(sub, 2)
                    if t not in seen and E.try_eval(sub) is not None:
                        seen.add(t)
                        bodyprobes.append((len(bodyprobes), i, sub))
        if bodyprobes:
            secs = []
            for j, i, sub in bodyprobes:
                k, n, o = minimal[i]
                rec = dict(ev[k])
                rec["state"] = dict(rec["state"])
                rec["state"][n[2]] = "(" + E.render(sub, 2) + ")"
                secs.append((j, section(rec, j, node=["ref", "macro", n[2], E.evaluate(sub)[0], "i", E.P_PRIMARY],
                                        value=plain(E.evaluate(sub)[0])), True))
            outB = run_sections(d, incs, secs, "F")
            for i, (k, n, o) in enumerate(list(minimal)):
                mine = [(j, sub) for j, ii, sub in bodyprobes if ii == i and isbad(outB.get(j))]
                if mine:
                    j, sub = mine[0]
                    rep("%s:cond=macro-body:%s" % (cat(outB[j]), fold(E.root_sig(sub))),
                        witness="\n".join(secs[j][1]), directive=ev[k]["text"], expected=ev[k]["value"])
                    minimal[i] = None
            minimal = [m for m in minimal if m is not None]
        extra = [x for x in extra if E.try_eval(x[3]) is not None and minimal]
        outD = run_sections(d, incs, [(j, section(ev[minimal[i][0]], j, node=r, value=plain(E.evaluate(r)[0])), True)
                                      for j, i, tag, r in extra], "E") if extra else {}
        failing = lambda j: outD.get(j) not in ("ok", "inconclusive", None)
        for i, (k, n, o) in enumerate(minimal):
            sig = None
            if n[0] == "lit":
                for j, ii, tag, r in extra:
                    if ii == i and failing(j):
                        n, o = r, outD[j]
                        break
            else:
                mine = [(j, tag, r) for j, ii, tag, r in extra if ii == i]
                ap = [j for j, tag, r in mine if tag == "allplain"]
                vv = [(j, r) for j, tag, r in mine if tag == "values"]
                if vv and failing(vv[0][0]):
                    # the operator fails on plain values: operands do not matter
                    sig = fold(E.root_sig(n))
                    n, o = vv[0][1], outD[vv[0][0]]
                elif ap and not failing(ap[0]):
                    # fine with plain literals: a literal that is fine on its own breaks its context
                    ess = [node_at(minimal[i][1], tag[1]) for j, tag, r in mine
                           if isinstance(tag, tuple) and not failing(j)]
                    lf = ess[0] if ess else None
                    sig = "literal-in-context=" + (incontext_sig(lf) if lf else "several")
                    o = "wrong"          # however it ends (wrong group, division by zero, ...): a mis-read literal
            if sig is None and n[0] in ("un", "bin", "cond", "par"):
                ks = sorted({"ref-" + ch[1] for ch in E.children(n) if ch[0] == "ref"})
                sig = fold(E.root_sig(n)) + (":operand=" + "+".join(ks) if ks else "")
            rep("%s:cond=%s" % (cat(o), sig or fold(E.root_sig(n))),
                witness="\n".join(section(ev[k], k, node=n, value=plain(E.evaluate(n)[0]))),
                directive=ev[k]["text"], expected=ev[k]["value"])
        if reported:
            return
    # the conditions are right on their own: structure / skipped-group effect / process state
    if st:
        rep("%s:rand:conditions-fine-alone" % cat(st), witness=text[:3000], detail=pr.pf.err[-600:])
        return
    if in_skipped:
        ln, sev, msg = in_skipped[0]
        w = f.lines[ln - 1].strip()
        what = re.sub(r"[^a-z]+", "-", (w.split() or ["blank"])[0].lower()).strip("-") or "text"
        rep("diagnostic-from-skipped-group:%s:%s" % (sev, what), witness=text[:3000], line=ln, message=msg)
        return
    if pr.got != f.truth:
        i = 0
        while i < min(len(pr.got), len(f.truth)) and pr.got[i] == f.truth[i]:
            i += 1
        extra = i < len(pr.got) and pr.got[i] not in f.truth
        nm = pr.got[i] if extra else f.truth[i]
        ln = f.marker_line.get(nm, 1)
        prev = f.lines[ln - 2].strip() if ln >= 2 else ""
        m = re.match(r"#\s*(\w+)", prev)
        rep("wrong-group:rand:structure:%s:after=%s" % ("extra-marker" if extra else "missing-marker",
                                                        m.group(1) if m else "text"),
            witness=text[:3000], first_difference=nm, got=pr.got[:40], expected=f.truth[:40])
        return
    rep("exit-status:rand" if pr.pf.rc != 0 else "diagnostic:rand:error", witness=text[:3000],
        detail=pr.pf.err[-600:], rc=pr.pf.rc)


SLOTS = {"un": [2], "cast": [3], "par": [1], "bin": [2, 3], "cond": [1, 2, 3]}


def leaves(n, path=()):
    if n[0] in ("lit", "ref"):
        yield path, n
    slots = SLOTS.get(n[0], [])
    for sl in slots:
        for x in leaves(n[sl], path + (sl,)):
            yield x


def node_at(n, path):
    for sl in path:
        n = n[sl]
    return n


def replace_at(n, path, new):
    if not path:
        return new
    c = list(n)
    c[path[0]] = replace_at(n[path[0]], path[1:], new)
    return c


def cat(outcome):
    """failure category of a section outcome / process state"""
    if outcome == "wrong":
        return "wrong-group"
    o = outcome.replace("died:", "")
    if "ABRT" in o or o in ("signal:6", "assert"):
        return "abort"
    if o.startswith("ubsan"):
        return "ubsan-" + o[6:] if len(o) > 6 else "ubsan"
    return re.sub(r"[^a-zA-Z0-9-]+", "-", o)


def spelling_feats(c):
    feats = []
    t = c["text"]
    if re.match(r"^\s+#", t):
        feats.append("space-before-hash")
    if re.match(r"^\s*#\s+\w", t):
        feats.append("space-after-hash")
    if "//" in t:
        feats.append("line-comment")
    if "/*" in t:
        feats.append("block-comment")
    if "\t" in t.strip():
        feats.append("tab")
    if re.search(r"\s$", t):
        feats.append("trailing-space")
    return "+".join(feats) or "other"


# ---------------------------------------------------------------------------
# adjacency family: a macro invocation written directly next to an operator character
# ---------------------------------------------------------------------------

PASTE_BIN = [o for o in E.BINOPS if o != ","]
PASTE_UN = ["-", "+", "!", "~"]
LONG_OPS = ["<<=", ">>=", "->*", "...", "<=>", "++", "--", "->", "<<", ">>", "<=", ">=", "==", "!=", "&&", "||", "+=",
            "-=", "*=", "/=", "%=", "&=", "|=", "^=", "::", ".*", "//", "/*", "##", "<:", "<%", "%>", ":>", "%:"]


def glued(a, b):
    """the multi-character operator that the end of `a` and the start of `b` would form if they were glued"""
    t = a + b
    for n in (3, 2):
        for i in range(max(0, len(a) - n + 1), len(a)):
            if t[i:i + n] in LONG_OPS and i + n > len(a):
                return t[i:i + n]
    return "none"


def paste_units():
    """(form, a, b, b2, defines, condition text, tree).  In every unit the text, read token by token as a conforming
    preprocessor does, is `2 a (b [b2] 1)`; written so that a macro's expansion begins or ends where an operator
    character stands with no white space in between."""
    L = lambda v: ["lit", str(v), v, "i"]
    out = []
    for a in PASTE_BIN:
        for b in PASTE_UN:
            tree = ["bin", a, L(2), ["un", b, L(1)]]
            out.append(("op-then-macro", a, b, "", ["#define PM %s1" % b], "2%sPM" % a, tree))
            out.append(("opmacro-then-op", a, b, "", ["#define OP %s" % a], "2 OP%s1" % b, tree))
            out.append(("macro-ends-with-op", a, b, "", ["#define LM 2 %s" % a], "LM%s1" % b, tree))
            out.append(("opmacro-then-macro", a, b, "", ["#define OP %s" % a, "#define PM %s1" % b], "2 OP PM", tree))
            out.append(("arg-begins-with-op", a, b, "", ["#define ID(x) x"], "2%sID(%s1)" % (a, b), tree))
            if a in ("+", "-", "<", ">", "&", "|", "&&", "==", "*", "<<"):
                for b2 in PASTE_UN:
                    t2 = ["bin", a, L(2), ["un", b, ["un", b2, L(1)]]]
                    out.append(("nested-macro", a, b, b2, ["#define PN %s1" % b2, "#define PM %sPN" % b],
                                "2%sPM" % a, t2))
                    out.append(("function-macro", a, b, b2, ["#define PF(x) %sx" % b], "2%sPF(%s1)" % (a, b2), t2))
    return out


def run_paste(ctx, case, res):
    d = ctx.casedir(case["id"])
    incs = setup_incs(d)
    units = []
    for u in paste_units():
        v = E.try_eval(u[6])
        if v is None:
            continue            # e.g. 2 / !1, 2 << -1: not this family's business
        units.append(u + (v[0],))
    names = ["PM", "PN", "OP", "LM", "PF", "ID"]
    for where in ("if", "elif"):
        secs = []
        for j, (form, a, b, b2, defs, cond, tree, v) in enumerate(units):
            lines = ["#undef " + n for n in names] + defs
            test = "(%s) == %s" % (cond, ("(%d)" % v) if v < 0 else str(v))
            lines += (["#if " + test] if where == "if" else ["#if 0", "#elif " + test])
            lines += ["int ct_%d_t;" % j, "#else", "int ct_%d_f;" % j, "#endif"]
            secs.append((j, lines, True))
        for start in range(0, len(secs), 120):
            chunk = secs[start:start + 120]
            out = run_sections(d, incs, chunk, "P%s%d" % (where, start))
            res.count("files")
            for j, lines, exp in chunk:
                form, a, b, b2 = units[j][:4]
                o = out.get(j)
                if o == "inconclusive":
                    res.count("references_disagree")
                    continue
                res.count("adjacency_units")
                if o == "ok":
                    res.features.add("paste:%s:%s:%s%s:%s" % (form, a, b, b2, where))
                    continue
                key = "%s:paste:form=%s:in=%s:glued=%s" % (cat(o), form, where, glued(a, b + b2))
                res.features.add("failure:" + key)
                if not any(k == key for k, _ in res.violations):
                    res.violation(key, witness="\n".join(lines), tokens="2 %s %s%s1" % (a, b, b2),
                                  replay_case=dict(id="w", kind="text", key=key, text="\n".join(lines) + "\n"))
    res.sample = dict(family="paste", text="\n".join(secs[len(secs) // 2][1]))


# ---------------------------------------------------------------------------
# short-circuit family: an operand that is NOT evaluated may divide by zero (well-formed; g++ -E accepts it)
# ---------------------------------------------------------------------------

def shortcircuit_units():
    """(form, defines, condition text, expected truth)"""
    out = []
    zs = [("lit", [], "0"), ("macro", ["#define ZN 0"], "ZN"), ("undef-ident", [], "zu_c09"),
          ("macro-expr", ["#define ZN (3 - 3)"], "ZN")]
    for zk, defs, z in zs:
        for op in ("/", "%"):
            bad = "(100 %s %s)" % (op, z)
            o = "div" if op == "/" else "mod"
            add = lambda form, cond, exp: out.append(("%s:%s:%s" % (form, o, zk), defs, cond, exp))
            add("or-true-lhs", "1 || %s" % bad, True)
            add("or-guard", "%s == 0 || %s > 3" % (z, bad), True)
            add("or-nested", "(0 || 1) || (%s || 0)" % bad, True)
            add("or-value", "(2 || %s) == 1" % bad, True)
            add("and-false-lhs", "0 && %s" % bad, False)
            add("and-guard", "%s != 0 && %s > 3" % (z, bad), False)
            add("and-value", "(0 && %s) == 0" % bad, True)
            add("and-in-or", "1 || (0 && %s)" % bad, True)
            add("or-in-and", "0 && (1 || %s)" % bad, False)
            add("not-and", "!(0 && %s)" % bad, True)
            add("cond-else-skipped", "(1 ? 2 : %s) == 2" % bad, True)
            add("cond-then-skipped", "(0 ? %s : 5) == 5" % bad, True)
            add("cond-nested", "(1 ? (0 ? %s : 7) : %s) == 7" % (bad, bad), True)
            add("cond-in-or", "1 || (1 ? %s : 0)" % bad, True)
            add("cond-guard", "(%s ? 100 %s %s : 9) == 9" % (z, op, z), True)
            add("or-then-arith", "(1 || %s) + 1 == 2" % bad, True)
    return out


def run_shortcircuit(ctx, case, res):
    d = ctx.casedir(case["id"])
    incs = setup_incs(d)
    units = shortcircuit_units()
    for where in ("if", "elif"):
        secs = []
        for j, (form, defs, cond, exp) in enumerate(units):
            lines = ["#undef ZN"] + defs
            lines += (["#if " + cond] if where == "if" else ["#if 0", "#elif " + cond])
            lines += ["int ct_%d_t;" % j, "#else", "int ct_%d_f;" % j, "#endif"]
            secs.append((j, lines, exp))
        out = run_sections(d, incs, secs, "S" + where)
        res.count("files")
        for j, lines, exp in secs:
            form = units[j][0]
            o = out.get(j)
            if o == "inconclusive":
                res.count("references_disagree")
                continue
            res.count("shortcircuit_units")
            if o == "ok":
                res.features.add("shortcircuit:%s:%s" % (form, where))
                continue
            key = "%s:short-circuit:form=%s:in=%s" % (cat(o), form, where)
            res.features.add("failure:" + key)
            res.violation(key, witness="\n".join(lines), expected=exp,
                          replay_case=dict(id="w", kind="text", key=key, text="\n".join(lines) + "\n"))
    res.sample = dict(family="shortcircuit", text="\n".join(secs[3][1]))


# ---------------------------------------------------------------------------
# cases
# ---------------------------------------------------------------------------

def run_case(ctx, case):
    import time
    t0 = time.time()
    res = _run_case(ctx, case)
    res.count("cpu_ms_" + case["kind"], int((time.time() - t0) * 1000))
    shutil.rmtree(ctx.casedir(case["id"]), ignore_errors=True)
    return res


def _run_case(ctx, case):
    res = core.CaseResult()
    kind = case["kind"]
    if kind == "exh":
        run_exh(ctx, case, res)
    elif kind == "side":
        run_side(ctx, case, res)
    elif kind == "rand":
        run_rand(ctx, case, res)
    elif kind == "unit":
        # a stored witness: one (sequence, prelude, injection) unit
        u = (tuple(case["seq"]), case.get("prelude"), tuple(case["inject"]) if case.get("inject") else None)
        d = ctx.casedir(case["id"])
        if unit_fails(d, u) is None:
            note_unit(res, u, case.get("family", "exh"))
        else:
            confirm_unit(ctx, d, res, u, case.get("family", "exh"))
    elif kind == "text":
        run_text(ctx, case, res)
    elif kind == "paste":
        run_paste(ctx, case, res)
    elif kind == "shortcircuit":
        run_shortcircuit(ctx, case, res)
    else:
        raise core.HarnessError("unknown case kind " + str(kind))
    return res


def run_text(ctx, case, res):
    """a stored witness given as literal text with ct_<k>_t / ct_<k>_f markers (one standalone condition)."""
    d = ctx.casedir(case["id"])
    incs = setup_incs(d)
    pr = Pair(d, RDIR + "/w.h", case["text"], incs)
    res.count("files")
    if pr.pf_state():
        res.violation(case["key"], witness=case["text"], detail=pr.pf_state())
    elif pr.got != pr.exp:
        res.violation(case["key"], witness=case["text"], got=pr.got, expected=pr.exp)
    else:
        res.features.add("witness-passes")


def parts(D, L):
    ps = C.prefixes(D, L)
    done = [list(s) for k, s in ps if k == "done"]
    out = [("done", done)] if done else []
    out += [("prefix", list(p)) for k, p in ps if k == "prefix"]
    return out


def main(chk):
    chk.rule = ("exh: every well-nested sequence of #if 0/#if 1/#if A/#ifdef A/#ifndef A, the five matching #elif* "
                "forms, #else, #endif with <= D directives and nesting <= 3, under A undefined/0/1, one marker per "
                "text segment; side: the same sequences (smaller D) with one #define/#undef/#error/#include placed in "
                "each group in turn; rand: deeper random trees with exprgen conditions over macros, defined, "
                "__has_include, undefined identifiers and all literal forms, spelling variations and hostile content "
                "in skipped groups.  distinct = distinct directive sequences (exh), distinct (injection, sequence) "
                "(side), distinct generator features incl. operator pairs of evaluated conditions (rand), counted "
                "only for units whose survivors matched and on which g++ and the generator's model agreed")
    chk.assumptions = [
        "g++ 12 -E -P -std=c++2b is the authority for which groups survive; the generator's model must agree",
        "both preprocessors are sequential, so a batch file of 100 independent units equals its members; a mismatching "
        "unit is re-run alone before it is reported",
        "conditions are int-range; a division by zero occurs only in operands that are not evaluated (|| && ?:), which "
        "is well-formed; an evaluated one is C15's territory",
    ]
    Dx = chk.pick(6, 8)
    Ds = chk.pick(4, 5)
    cases = []
    for i, pt in enumerate(parts(Dx, chk.pick(2, 3))):
        cases.append(dict(id="x%d" % i, kind="exh", D=Dx, part=pt))
    for i, pt in enumerate(parts(Ds, 2)):
        cases.append(dict(id="s%d" % i, kind="side", D=Ds, part=pt))
    cases.append(dict(id="p0", kind="paste"))
    cases.append(dict(id="sc0", kind="shortcircuit"))
    nr = chk.pick(1600, 4000)
    for i in range(nr):
        prof = {}
        if i % 10 == 3:
            prof = dict(budget=30, maxdepth=7)
        if i % 10 == 7:
            prof = dict(lit_forms=["hex", "oct", "bin"])
        if i % 10 == 9:
            prof = dict(spelling=False, junk=False)
        cases.append(dict(id="r%d" % i, kind="rand", subseed=chk.rng.getrandbits(48), profile=prof))
    chk.run_cases(__name__, cases)
    n_exh = chk.counters.get("exhaustive_sequences", 0)
    chk.extra["exhaustive_D"] = Dx
    chk.extra["exhaustive_sequences_expected"] = C.count(Dx) if Dx <= 7 else 858436
    chk.extra["exhaustive_sequences_enumerated"] = n_exh
    chk.extra["exhaustive_units_with_preludes"] = n_exh * 3
    chk.extra["side_effect_D"] = Ds
    chk.extra["side_effect_variants"] = chk.counters.get("side_effect_variants", 0)
    chk.extra["random_trees"] = nr
    # the enumeration is complete when every part ran and every unit was conclusive
    chk.exhaustive = bool(n_exh == chk.extra["exhaustive_sequences_expected"] and not chk.harness_errors
                          and chk.counters.get("references_disagree", 0) == 0
                          and chk.counters.get("suspects_not_examined", 0) == 0)
    chk.extra["exhaustive_note"] = ("exhaustive=true refers to the exh and side families (finite spaces enumerated "
                                    "completely); the rand family is sampled")
    chk.min_conclusive = max(1, len(cases) // 2)
