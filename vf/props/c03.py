"""C03 — successful runs yield compilable, linkable code with unique wrapper symbols.

Workload: libgen libraries x the option lattice.  Oracle: g++ compiles the -oc file against the original
headers, the objects link (--no-undefined) with the library and the interrogate_module output, the Python
back-ends import, and the wrapper / unique names in the database are distinct valid identifiers.
"""
import itertools
import os
import random
import re
import shutil

from vf import core, tools, genbuild, libbuild
from vf.gen import libgen, collide, advgen

LEVEL = "exploration"

BACKENDS = ["-c", "-python", "-python-native"]
NAMING = ["-fnames", "-fptrs", ""]
FLAGS = ["-string", "-true-names", "-unique-names", "-nodb", "-do-module", "-promiscuous", "-nomangle", "-assert"]
IDENT = re.compile(r"^[A-Za-z_][A-Za-z0-9_]*$")


def norm_msg(line):
    m = re.search(r"(?:fatal )?error: (.*)", line)
    s = m.group(1) if m else line
    s = re.sub(r"; did you mean .*", "", s)      # g++'s spelling suggestion depends on what else is in scope
    m2 = re.match(r"[‘'`]([^’']*)[’'] was not declared in this scope", s)
    if m2:
        # the undeclared identifier itself identifies the defect better than the function it occurs in
        ident = re.sub(r"\d+", "N", m2.group(1))
        ident = re.sub(r"nsN_(inN_)?", "ns_", ident)
        ident = re.sub(r"(ClsN_)+", "Cls_", ident)
        return ("'%s' was not declared in this scope" % ident)[:90]
    s = re.sub(r"[‘'`][^’']*[’']", "'X'", s)
    s = re.sub(r"\[-f[\w-]+\]|\[-W[\w=-]+\]", "", s)
    s = re.sub(r"\d+", "N", s)
    s = re.sub(r"\s+", " ", s).strip()
    return s[:90]


def error_context(text):
    """the generated function the first error sits in, with digits and hash suffixes abstracted"""
    last = ""
    for line in text.splitlines():
        m = re.search(r"In (?:member )?function [‘'](.+?)[’']:", line)
        if m:
            last = m.group(1)
        if "error:" in line:
            break
    m = re.search(r"(Dtool_\w+|_in[CP]\w+)\(", last)
    if not m:
        return ""
    name = m.group(1)
    if name.startswith("_in"):
        return ""
    name = re.sub(r"\d+", "N", name)
    return name[:40]


def error_classes(text, limit=4):
    out = []
    for line in text.splitlines():
        if "error:" in line or "undefined reference" in line or "multiple definition" in line:
            if "undefined reference" in line:
                c = "undefined reference"
            elif "multiple definition" in line:
                c = "multiple definition"
            else:
                c = norm_msg(line)
            if c not in out:
                out.append(c)
            if len(out) >= limit:
                break
    return out


def optkey(opts):
    be = [o for o in opts if o in BACKENDS]
    nm = [o for o in opts if o in ("-fnames", "-fptrs")]
    rest = sorted(o for o in opts if o not in BACKENDS and o not in ("-fnames", "-fptrs"))
    return ",".join([x.lstrip("-") for x in be] + [(nm[0].lstrip("-") if nm else "nonames")] + [x.lstrip("-") for x in rest])


def make_lib(case, d):
    if case.get("files"):
        libgen.write_files(d, case["files"])
        return None
    rng = random.Random(case["libseed"])
    if case.get("collide"):
        lib = collide.generate(rng, "liba", case["collide"])
    elif case.get("adv"):
        lib = advgen.generate(rng, "liba")
    else:
        # without -string a std::string is an opaque class that no library publishes: the native module then
        # cannot resolve it at import, which is a missing dependency, not a generator defect -> no strings there
        nostr = "-python-native" in case["opts"] and "-string" not in case["opts"]
        lib = libgen.generate(rng, "liba", size=case.get("size", 1.0), strings=not nostr,
                              oddities="nofwd" if case.get("oddities") else False, ext=True, enumalias=True)
    lib.write(d)
    return lib


def attempt(b, d, opts, stage_limit="import"):
    """Run the whole pipeline for one option set.  Returns (stage, classes, detail) where stage is None when
    everything succeeded, 'tool-rejected' when interrogate itself refused (not a violation)."""
    for f in os.listdir(d):
        if f.endswith((".o", ".so", ".in")) or "_igate" in f or "_module" in f:
            os.remove(os.path.join(d, f))
    r, p = libbuild.igate(b, d, "liba", [o for o in opts if o])
    if r.died() or r.timed_out:
        return "tool-crash", [r.how()], r.err[-1500:]
    if r.rc != 0:
        return "tool-rejected", [], r.err[-300:]
    python = "-python" in opts or "-python-native" in opts
    dirs = libbuild.dirs_for(d)
    if "oc" not in p or not os.path.exists(p["oc"]):
        return "no-output", ["no -oc file after exit 0"], ""
    objs = []
    o1 = os.path.join(d, "igate.o")
    rc = genbuild.compile_obj(b, p["oc"], o1, dirs=dirs, python=python)
    if rc.rc != 0:
        ec = error_classes(rc.err) or ["?"]
        cx = error_context(rc.err)
        if cx and "was not declared in this scope" not in ec[0]:
            ec[0] = ec[0] + " @" + cx
        return "compile-error", ec, rc.err[:3000]
    objs.append(o1)
    o2 = os.path.join(d, "lib.o")
    if not os.path.exists(o2):
        rl = genbuild.compile_obj(b, os.path.join(d, "liba.cxx"), o2, dirs=dirs)
        if rl.rc != 0:
            raise core.HarnessError("generated library does not compile: " + rl.err[:2000])
    objs.append(o2)
    need_module = "-python-native" in opts and "-do-module" not in opts
    if need_module and "-nodb" not in opts:
        mod = os.path.join(d, "mod_module.cxx")
        rm = tools.interrogate_module(b, [p["od"]], mod, module="mod", library="mod", opts=["-python-native"])
        if rm.died() or rm.timed_out:
            return "module-tool-crash", [rm.how()], rm.err[-1500:]
        if rm.rc != 0:
            return "tool-rejected", [], rm.err[-300:]
        o3 = os.path.join(d, "module.o")
        rc = genbuild.compile_obj(b, mod, o3, dirs=dirs, python=True)
        if rc.rc != 0:
            return "module-compile-error", error_classes(rc.err) or ["?"], rc.err[:3000]
        objs.append(o3)
    elif need_module:
        return None, [], "nodb: module pass impossible, compile only"
    py_module = "-python" in opts and "-python-native" not in opts and "-c" not in opts and "-nodb" not in opts \
        and "-do-module" not in opts
    if py_module:
        # the simple Python back-end: interrogate_module builds the method table from the wrappers the database
        # says are callable by name
        mod = os.path.join(d, "mod_module.cxx")
        rm = tools.interrogate_module(b, [p["od"]], mod, module="mod", library="mod", opts=["-python"])
        if rm.died() or rm.timed_out:
            return "module-tool-crash", [rm.how()], rm.err[-1500:]
        if rm.rc != 0:
            return "tool-rejected", [], rm.err[-300:]
        o3 = os.path.join(d, "module.o")
        rc = genbuild.compile_obj(b, mod, o3, dirs=dirs, python=True)
        if rc.rc != 0:
            return "module-compile-error", error_classes(rc.err) or ["?"], rc.err[:3000]
        objs.append(o3)
    so = os.path.join(d, "mod.so")
    idb = b.libs("interrogatedb", "dtoolutil", "dtoolbase")
    plain = core.build("plain")
    idb = plain.libs("interrogatedb", "dtoolutil", "dtoolbase")
    rl = genbuild.link_shared(objs, so, extra=["-Wl,--no-undefined"] + idb + (libbuild.libpython() if python else []))
    if rl.rc != 0:
        return "link-error", error_classes(rl.err) or ["?"], rl.err[:3000]
    if "-python-native" in opts or py_module:
        ri = core.run(["python3", "-c", "import sys; sys.path.insert(0, %r); import mod; print('IMPORTED', len(dir(mod)))" % d],
                      timeout=60)
        if "IMPORTED" not in ri.out:
            return "import-error", [ri.how() + ":" + norm_msg(ri.err.strip().splitlines()[-1] if ri.err.strip() else "")], ri.err[-1500:]
    return None, [], ""


def check_names(res, b, d, opts):
    """wrapper names / unique names in the database: distinct valid identifiers"""
    od = os.path.join(d, "liba.in")
    if "-nodb" in opts or not os.path.exists(od):
        return
    r, dump = tools.idbdump([od])
    if dump is None:
        res.violation("db-unreadable:" + r.how(), opts=opts)
        return
    names, uniq = {}, {}
    for w in dump["wrappers"]:
        n = w["name"]
        if n:
            res.count("wrapper_names_checked")
            if not IDENT.match(n):
                res.violation("bad-wrapper-name:" + optkey(opts), name=n)
            if n in names:
                res.violation("duplicate-wrapper-name:" + optkey(opts), name=n)
            names[n] = w["index"]
        u = w["unique_name"]
        if u:
            res.count("unique_names_checked")
            if not IDENT.match(u):
                res.violation("bad-unique-name:" + optkey(opts), name=u)
            if u in uniq:
                res.violation("duplicate-unique-name:" + optkey(opts), name=u)
            uniq[u] = w["index"]


def run_case(ctx, case):
    res = core.CaseResult()
    b = core.build("asan")
    d = ctx.casedir(case["id"])
    make_lib(case, d)
    opts = [o for o in case["opts"] if o]
    stage, classes, detail = attempt(b, d, opts)
    res.count("programs")
    if stage == "tool-rejected":
        res.count("tool_rejected")
        res.features.add("rejected:" + optkey(opts))
        shutil.rmtree(d, ignore_errors=True)
        return res
    res.features.add(optkey(opts) + (":collide" if case.get("collide") else ":adv" if case.get("adv") else
                                     ":odd" if case.get("oddities") else ""))
    res.sample = dict(libseed=case.get("libseed"), opts=opts, outcome=stage or "built+linked")
    if stage is None:
        res.count("built_ok")
        check_names(res, b, d, opts)
    else:
        # minimise the option set: drop options while the same stage/class persists
        cur = list(opts)
        for o in list(opts):
            if o in BACKENDS or (o == "-string" and "-python-native" in cur):
                continue     # (python-native libraries use std::string, which needs -string)
            trial = [x for x in cur if x != o]
            st2, cl2, _ = attempt(b, d, trial)
            if st2 == stage and cl2 and cl2[0] == classes[0]:
                cur = trial
        rc = dict(id=case["id"], opts=cur, files=libgen.read_files(d))
        res.violation(f"{stage}:{optkey(cur)}:{classes[0]}", opts=opts, min_opts=cur, detail=detail[:1200],
                      replay_case=rc)
    shutil.rmtree(d, ignore_errors=True)
    return res


def valid(opts):
    s = set(opts)
    if "-do-module" in s and "-c" in s:
        return True
    return True


def main(chk):
    chk.rule = ("case = (libgen library seed, option set); option sets: pairwise-covering sample of the lattice "
                "{-c,-python,-python-native} x {-fnames,-fptrs,none} x 8 boolean flags (thorough: full product on a "
                "small library) + libraries with brute-forced colliding 24-bit signature hashes; distinct = distinct "
                "option sets that interrogate accepted and whose output was compiled")
    chk.assumptions = ["g++ 12 -std=gnu++17 is the authority for well-formedness", "shim headers stand in for the Panda3D runtime (pnotify.h, register_type.h, dconfig.h)",
                       "options needing the Panda3D runtime (-refcount, -spam, -track-interpreter) excluded as the statement allows"]
    core.build("plain")
    rng = chk.rng
    cases = []
    cid = 0
    if chk.quick():
        nlibs, per = 4, 12
    else:
        nlibs, per = 24, 40
    # pairwise-ish random sampling of option sets, every backend x naming guaranteed
    combos = []
    for be in BACKENDS:
        for nm in NAMING:
            combos.append([be, nm])
    for li in range(nlibs):
        libseed = rng.randrange(1 << 30)
        chosen = []
        for k in range(per):
            base = combos[(li * per + k) % len(combos)]
            fl = [f for f in FLAGS if rng.random() < (0.25 if k % 3 else 0.0 if k % 2 else 0.5)]
            chosen.append(base + fl)
        for o in chosen:
            cid += 1
            cases.append(dict(id=cid, libseed=libseed, opts=o, size=0.7))
    if not chk.quick():
        # full product on a small library
        libseed = rng.randrange(1 << 30)
        for be in BACKENDS:
            for nm in NAMING:
                for bits in itertools.product([0, 1], repeat=len(FLAGS)):
                    if sum(bits) > 4:
                        continue
                    cid += 1
                    cases.append(dict(id=cid, libseed=libseed, size=0.4,
                                      opts=[be, nm] + [f for f, x in zip(FLAGS, bits) if x]))
    # hash-collision libraries
    for i in range(chk.pick(4, 30)):
        cid += 1
        cases.append(dict(id=cid, libseed=rng.randrange(1 << 30), collide=rng.choice([2, 3, 4, 5, 8]),
                          opts=[rng.choice(["-c", "-python-native", "-python"]), "-fnames"] +
                          (["-unique-names"] if rng.random() < 0.5 else [])))
    # adversarial names / literals, and declarations with unusual types
    for i in range(chk.pick(10, 120)):
        cid += 1
        cases.append(dict(id=cid, libseed=rng.randrange(1 << 30), adv=True,
                          opts=[rng.choice(BACKENDS), "-fnames", "-string"] + [f for f in ("-promiscuous", "-nomangle", "-unique-names") if rng.random() < 0.3]))
    for i in range(chk.pick(5, 60)):
        cid += 1
        cases.append(dict(id=cid, libseed=rng.randrange(1 << 30), oddities=True, size=0.5,
                          opts=[rng.choice(BACKENDS), "-fnames", "-string"]))
    chk.run_cases(__name__, cases)
