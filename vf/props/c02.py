"""C02 — -python-native bindings dispatch, convert and own objects as C++ would.

Workload: natgen libraries (libgen + the native feature set: overload sets distinguishable by Python type category,
defaults, keyword names, const/non-const pairs, inheritance, converting constructors, properties, sequences, item
assignment, operators, enums, nested classes).  `interrogate -python-native -string` + `interrogate_module` are
compiled with ASan+UBSan against the shim headers into one extension module, which a driver (vf/drv_native.py)
imports in an ASan-preloaded CPython and exercises with random histories of create / call / pass / return / store /
drop / gc.collect().

Oracle: the instrumented C++ bodies log which overload ran, on which object, with which argument values and which
result (no re-implementation of the bodies).  For every call the model computes the set of overloads whose parameter
types correspond to the Python argument categories; the body that ran must be in that set (the unique member after
C++'s preference for the nearest class / the non-const member), its logged arguments must be the values passed
(declared defaults for omitted ones), and the Python result must be the logged result (identity for pointers and
references, state for values, constness and ownership as declared).  Calls no overload can accept must raise TypeError
/ OverflowError and run no body.  The lifetime ledger (constructor / destructor log) must balance over each history.
"""
import concurrent.futures as cf
import hashlib
import json
import os
import random
import shutil
import sys

from vf import core, tools, genbuild, libbuild
from vf.gen import libgen, natgen

LEVEL = "translation_validation"

CONFIGS = {
    "native": ["-python-native", "-string", "-fnames"],
    "native-nomangle": ["-python-native", "-string", "-fnames", "-nomangle"],
}
DRV = os.path.join(core.VERIF, "vf", "drv_native.py")


def build_module(b, d, cfg):
    """interrogate + interrogate_module + g++ (ASan+UBSan) -> d/mod.so.  Returns (None, '') or (stage, detail)."""
    r, p = libbuild.igate(b, d, "liba", CONFIGS[cfg])
    if r.died() or r.timed_out:
        return "interrogate-died:" + r.how(), r.err[-1200:]
    if r.rc != 0:
        return "interrogate-rejected", r.err[-600:]
    mod = os.path.join(d, "mod_module.cxx")
    rm = tools.interrogate_module(b, [p["od"]], mod, module="mod", library="mod", opts=["-python-native"])
    if rm.died() or rm.timed_out or rm.rc != 0:
        return "interrogate_module-failed:" + rm.how(), rm.err[-1200:]
    dirs = libbuild.dirs_for(d)
    jobs = [(p["oc"], "igate.o", True), (mod, "module.o", True), (os.path.join(d, "liba.cxx"), "lib.o", False)]

    def comp(j):
        src, o, py = j
        return j, genbuild.compile_obj(b, src, os.path.join(d, o), dirs=dirs, python=py, san=True, opt="-O0")
    with cf.ThreadPoolExecutor(3) as ex:
        for (src, o, py), rc in ex.map(comp, jobs):
            if rc.rc != 0:
                if o == "lib.o":
                    raise core.HarnessError("generated library does not compile: " + rc.err[:2000])
                return "generated-code-does-not-compile:" + o, rc.err[:1500]
    plain = core.build("plain")
    rl = genbuild.link_shared([os.path.join(d, o) for _, o, _ in jobs], os.path.join(d, "mod.so"), san=True,
                              extra=plain.libs("interrogatedb", "dtoolutil", "dtoolbase") + libbuild.libpython())
    if rl.rc != 0:
        return "link-failed", rl.err[:1500]
    return None, ""


def crash_key(rr, progress):
    how = rr.how()
    words = progress.split()
    step = "-".join(words[:2]) if words else "start"
    if words and words[0] in ("drop", "alias", "final-drop", "gc", "final-gc", "names", "import", "pool-init", "member", "seq", "setitem"):
        step = words[0]
    return f"crash:{how}:step={step}"


_memo = {}


def materialise(ctx, case, sub=""):
    """write the library of a case; returns (dir, model).  Built modules are cached per (library text, option set) under
    the run's work dir, so that the witnesses of listed findings (which share a few libraries) are built once."""
    tmp = ctx.casedir(str(case["id"]) + sub)
    shutil.rmtree(tmp, ignore_errors=True)
    os.makedirs(tmp)
    if case.get("files"):
        libgen.write_files(tmp, case["files"])
    else:
        natgen.generate(random.Random(case["libseed"]), "liba", n_classes=case.get("n_classes")).write(tmp)
    h = hashlib.sha1()
    for f in ("liba.h", "liba.cxx", "liba.model.json"):
        h.update(open(os.path.join(tmp, f), "rb").read())
    h.update(case.get("cfg", "native").encode())
    cd = os.path.join(ctx.work, "libs", h.hexdigest()[:16])
    if os.path.exists(os.path.join(cd, "BUILT")):
        shutil.rmtree(tmp, ignore_errors=True)
    else:
        shutil.rmtree(cd, ignore_errors=True)
        os.makedirs(os.path.dirname(cd), exist_ok=True)
        os.rename(tmp, cd)
    return cd, json.load(open(os.path.join(cd, "liba.model.json")))


def get_module(ctx, b, case):
    d, model = materialise(ctx, case)
    mark = os.path.join(d, "BUILT")
    if os.path.exists(mark):
        st = json.load(open(mark))
        return d, model, st["stage"], st["detail"]
    stage, detail = build_module(b, d, case.get("cfg", "native"))
    json.dump(dict(stage=stage, detail=detail), open(mark, "w"))
    return d, model, stage, detail


def prepare(chk):
    """The witnesses of the listed findings share a few libraries and are short, focused histories: build the libraries
    and run all of them in parallel once; the runner's one-by-one replay then finds the results memoised."""
    b = core.build("asan")
    core.build("plain")
    wit = [f["case"] for f in chk.findings if f.get("case")]
    if not wit or os.environ.get("VERIF_C02_NO_PREFETCH"):
        return
    ctx = chk.ctx()
    libs = {}
    for c in wit:
        libs.setdefault(json.dumps({x: c.get(x) for x in ("libseed", "n_classes", "cfg", "files")}, sort_keys=True), c)
    with cf.ThreadPoolExecutor(max(1, min(8, len(libs)))) as ex:
        list(ex.map(lambda c: get_module(ctx, b, dict(c, id="prep-%s" % c["id"])), libs.values()))
    distinct = {}
    for c in wit:
        distinct.setdefault(json.dumps(c, sort_keys=True), c)

    def one(c):
        try:
            return c, _run_case(ctx, c), None
        except Exception as ex:      # noqa: reported when the runner replays the case itself
            return c, None, ex
    with cf.ThreadPoolExecutor(8) as ex:
        for c, res, err in ex.map(one, distinct.values()):
            if err is None:
                _memo[json.dumps(c, sort_keys=True)] = res


def run_case(ctx, case):
    mk = json.dumps(case, sort_keys=True)
    if mk in _memo:
        return _memo[mk]
    res = _run_case(ctx, case)
    if str(case.get("id", "")).startswith("w"):
        _memo[mk] = res
    return res


def _run_case(ctx, case):
    res = core.CaseResult()
    b = core.build("asan")
    keep = str(case.get("id", "")).startswith("w")
    cfg = case.get("cfg", "native")
    d, model, stage, detail = get_module(ctx, b, case)
    res.count("programs")

    def done():
        if not keep:
            shutil.rmtree(d, ignore_errors=True)
        return res
    rcase = dict(id=case["id"], cfg=cfg, drvseed=case["drvseed"], nsteps=case["nsteps"], only=case.get("only"),
                 libseed=case.get("libseed"), n_classes=case.get("n_classes"), files=libgen.read_files(d))
    if stage is not None:
        if stage.startswith(("interrogate-died", "interrogate_module-failed")):
            res.violation(f"tool-failed:{stage}", detail=detail, replay_case=rcase)
        else:
            # compilability of generated code is C03's subject; nothing can be imported here
            import re
            m = re.search(r"error: (.*)", detail)
            msg = re.sub(r"\d+", "N", re.sub(r"[‘'`][^’']*[’']", "'X'", m.group(1)))[:80] if m else ""
            res.inconclusive = stage + (": " + msg if msg else "")
            res.count("not_built")
            res.sample = dict(cfg=cfg, libseed=case.get("libseed"), outcome=stage, detail=detail[:400])
        return done()
    progress_file = os.path.join(d, "progress-%s.txt" % case["id"])
    env = {"PYTHONMALLOC": "malloc", "PYTHONDONTWRITEBYTECODE": "1", "PYTHONHASHSEED": "0", "VF_PROGRESS": progress_file,
           "ASAN_OPTIONS": core.SAN_ENV["ASAN_OPTIONS"] + ":verify_asan_link_order=0",
           "UBSAN_OPTIONS": "print_stacktrace=1:halt_on_error=1"}
    cmd = [sys.executable, DRV, d, os.path.join(d, "liba.model.json"), str(case["drvseed"]), str(case["nsteps"]),
           "0" if "-nomangle" in CONFIGS[cfg] else "1", case.get("only") or ""]
    rr = core.run(cmd, timeout=600, env=env, preload=genbuild.asan_preload())
    if rr.timed_out:
        rr = core.run(cmd, timeout=900, env=env, preload=genbuild.asan_preload())
        if rr.timed_out:
            res.inconclusive = "driver timeout"
            return done()
    line = next((l for l in rr.out.splitlines() if l.startswith("VFRESULT ")), None)
    if line is None:
        try:
            progress = open(progress_file).read()
        except OSError:
            progress = ""
        res.count("interpreter_crashes")
        res.violation(crash_key(rr, progress), last_step=progress[:600], err=rr.err[-2500:], replay_case=rcase)
        return done()
    out = json.loads(line[len("VFRESULT "):])
    if out["error"]:
        raise core.HarnessError("drv_native failed: " + out["error"][-2500:])
    for k, v in out["counts"].items():
        res.count(k, v)
    for f in out["features"]:
        res.features.add(f)
    res.features.add("cfg:" + cfg)
    for ft in model.get("features", []):
        res.features.add("lib:" + ft)
    for key, detail in out["violations"]:
        res.violation(key, replay_case=rcase, **detail)
    res.sample = dict(cfg=cfg, libseed=case.get("libseed"), drvseed=case["drvseed"], calls=out["counts"].get("calls"),
                      events=out["counts"].get("trace_events_compared"), drops=out["counts"].get("drops"),
                      lib_features=model.get("features"))
    return done()


def main(chk):
    chk.rule = ("case = (natgen library seed, option set, history seed); a history is a random sequence of constructor / "
                "method / static / free-function / operator / property / member / sequence / item-assignment calls with "
                "category-exact, malformed (wrong count, unacceptable type, out-of-range integer, const receiver) and "
                "arbitrary argument tuples, positional and keyword, interleaved with drops and gc.collect(); distinct = "
                "(call kind, parameter categories, arity/keyword form), parameter kinds, result kinds, negative-case "
                "(argument category) signatures, name kinds and lifetime events actually exercised and judged")
    chk.assumptions = [
        "the instrumented body's own log (entity id, this, arguments, result) is the reference for what the C++ call does",
        "C++ overload resolution is approximated from the safe side: a unique category-exact overload (nearest class, "
        "non-const member for a non-const object) is demanded exactly; several category-exact overloads only as a set; "
        "calls needing a standard or user-defined conversion (int->double, bool->int, coercion constructors, None for "
        "pointers, bytes for strings) are not judged beyond 'no exception with a body run', ledger balance and no crash",
        "shim headers stand in for the Panda3D runtime (pnotify.h, register_type.h, dconfig.h); -string is always on",
        "arrays of simple types (no wrapper generated), string macros (C03 finding) and Python-side keyword support of "
        "single-argument wrappers are outside the judged subset",
    ]
    core.build("plain")
    rng = chk.rng
    cases = []
    nlibs = chk.pick(5, 40)
    for i in range(nlibs):
        libseed = rng.randrange(1 << 30)
        cases.append(dict(id=len(cases) + 1, libseed=libseed, cfg="native", drvseed=rng.randrange(1 << 30),
                          nsteps=chk.pick(500, 1500)))
        if (chk.quick() and i == 0) or (not chk.quick() and i % 4 == 0):
            cases.append(dict(id=len(cases) + 1, libseed=libseed, cfg="native-nomangle", drvseed=rng.randrange(1 << 30),
                              nsteps=chk.pick(300, 1000)))
    chk.run_cases(__name__, cases, workers=min(core.NPROC, chk.pick(6, 6)))
