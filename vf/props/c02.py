"""C02 — -python-native bindings dispatch, convert and own objects as C++ would.

Workload: natgen libraries (libgen + the native feature set: overload sets distinguishable by Python type category,
defaults, keyword names, const/non-const pairs, inheritance, converting constructors, properties, sequences, item
assignment, operators, enums, nested classes).  `interrogate -python-native -string` + `interrogate_module` are
compiled with ASan+UBSan against the shim headers into one extension module, which a driver (vf/drv_native.py)
imports in an ASan-preloaded CPython and exercises with random histories of create / call / pass / return / store /
drop / gc.collect().

Oracle: the instrumented C++ bodies log which overload ran, on which object, with which argument values and which
result (no re-implementation of the bodies).  For every call the model computes the set of overloads whose parameter
types correspond to the Python argument categories; the body that ran must be in that set (the unique member after
C++'s preference for the nearest class / the non-const member), its logged arguments must be the values passed
(declared defaults for omitted ones), and the Python result must be the logged result (identity for pointers and
references, state for values, constness and ownership as declared).  Calls no overload can accept must raise TypeError
/ OverflowError and run no body.  The lifetime ledger (constructor / destructor log) must balance over each history.
"""
import concurrent.futures as cf
import hashlib
import json
import os
import random
import shutil
import sys

from vf import core, tools, genbuild, libbuild
from vf.gen import libgen, natgen

LEVEL = "translation_validation"

CONFIGS = {
    "native": ["-python-native", "-string", "-fnames"],
    "native-nomangle": ["-python-native", "-string", "-fnames", "-nomangle"],
}
DRV = os.path.join(core.VERIF, "vf", "drv_native.py")


def build_module(b, d, cfg):
    """interrogate + interrogate_module + g++ (ASan+UBSan) -> d/mod.so.  Returns (None, '') or (stage, detail)."""
    r, p = libbuild.igate(b, d, "liba", CONFIGS[cfg])
    if r.died() or r.timed_out:
        return "interrogate-died:" + r.how(), r.err[-1200:]
    if r.rc != 0:
        return "interrogate-rejected", r.err[-600:]
    mod = os.path.join(d, "mod_module.cxx")
    rm = tools.interrogate_module(b, [p["od"]], mod, module="mod", library="mod", opts=["-python-native"])
    if rm.died() or rm.timed_out or rm.rc != 0:
        return "interrogate_module-failed:" + rm.how(), rm.err[-1200:]
    dirs = libbuild.dirs_for(d)
    jobs = [(p["oc"], "igate.o", True), (mod, "module.o", True), (os.path.join(d, "liba.cxx"), "lib.o", False)]

    def comp(j):
        src, o, py = j
        return j, genbuild.compile_obj(b, src, os.path.join(d, o), dirs=dirs, python=py, san=True, opt="-O0")
    with cf.ThreadPoolExecutor(3) as ex:
        for (src, o, py), rc in ex.map(comp, jobs):
            if rc.rc != 0:
                if o == "lib.o":
                    raise core.HarnessError("generated library does not compile: " + rc.err[:2000])
                return "generated-code-does-not-compile:" + o, rc.err[:1500]
    plain = core.build("plain")
    rl = genbuild.link_shared([os.path.join(d, o) for _, o, _ in jobs], os.path.join(d, "mod.so"), san=True,
                              extra=plain.libs("interrogatedb", "dtoolutil", "dtoolbase") + libbuild.libpython())
    if rl.rc != 0:
        return "link-failed", rl.err[:1500]
    return None, ""


def crash_key(rr, progress):
    how = rr.how()
    words = progress.split()
    step = "-".join(words[:2]) if words else "start"
    if words and words[0] in ("drop", "alias", "final-drop", "gc", "final-gc", "names", "import", "pool-init", "member", "seq", "setitem"):
        step = words[0]
    return f"crash:{how}:step={step}"


_memo = {}
_libs = None


def stored_libs():
    global _libs
    if _libs is None:
        _libs = json.load(open(os.path.join(core.VERIF, "findings", "C02.json"))).get("libs", {})
    return _libs


def materialise(ctx, case, sub=""):
    """write the library of a case; returns (dir, model).  Built modules are cached per (library text, option set) under
    the run's work dir, so that the witnesses of listed findings (which share a few libraries) are built once."""
    tmp = ctx.casedir(str(case["id"]) + sub)
    shutil.rmtree(tmp, ignore_errors=True)
    os.makedirs(tmp)
    if case.get("files"):
        libgen.write_files(tmp, case["files"])
    elif case.get("lib"):
        # witness of a listed finding: the library text is stored once per library in findings/C02.json ("libs")
        libgen.write_files(tmp, stored_libs()[case["lib"]])
    else:
        natgen.generate(random.Random(case["libseed"]), "liba", n_classes=case.get("n_classes")).write(tmp)
    h = hashlib.sha1()
    for f in ("liba.h", "liba.cxx", "liba.model.json"):
        h.update(open(os.path.join(tmp, f), "rb").read())
    h.update(case.get("cfg", "native").encode())
    cd = os.path.join(ctx.work, "libs", h.hexdigest()[:16])
    if os.path.exists(os.path.join(cd, "BUILT")):
        shutil.rmtree(tmp, ignore_errors=True)
    else:
        shutil.rmtree(cd, ignore_errors=True)
        os.makedirs(os.path.dirname(cd), exist_ok=True)
        os.rename(tmp, cd)
    return cd, json.load(open(os.path.join(cd, "liba.model.json")))


def get_module(ctx, b, case):
    d, model = materialise(ctx, case)
    mark = os.path.join(d, "BUILT")
    if os.path.exists(mark):
        st = json.load(open(mark))
        return d, model, st["stage"], st["detail"]
    stage, detail = build_module(b, d, case.get("cfg", "native"))
    json.dump(dict(stage=stage, detail=detail), open(mark, "w"))
    return d, model, stage, detail


def prepare(chk):
    """The witnesses of the listed findings share a few libraries and are short, focused histories: build the libraries
    and run all of them in parallel once; the runner's one-by-one replay then finds the results memoised."""
    b = core.build("asan")
    core.build("plain")
    wit = [f["case"] for f in chk.findings if f.get("case")]
    if not wit or os.environ.get("VERIF_C02_NO_PREFETCH") or "--replay" in sys.argv:
        return
    ctx = chk.ctx()
    libs = {}
    for c in wit:
        libs.setdefault(json.dumps({x: c.get(x) for x in ("lib", "libseed", "n_classes", "cfg", "files")}, sort_keys=True), c)
    with cf.ThreadPoolExecutor(max(1, min(8, len(libs)))) as ex:
        list(ex.map(lambda c: get_module(ctx, b, dict(c, id="prep-%s" % c["id"])), libs.values()))
    distinct = {}
    for c in wit:
        distinct.setdefault(json.dumps(c, sort_keys=True), c)

    def one(c):
        try:
            return c, _run_case(ctx, c), None
        except Exception as ex:      # noqa: reported when the runner replays the case itself
            return c, None, ex
    with cf.ThreadPoolExecutor(8) as ex:
        for c, res, err in ex.map(one, distinct.values()):
            if err is None:
                _memo[json.dumps(c, sort_keys=True)] = res


def run_case(ctx, case):
    mk = json.dumps(case, sort_keys=True)
    if mk in _memo:
        return _memo[mk]
    res = _run_case(ctx, case)
    if str(case.get("id", "")).startswith("w"):
        _memo[mk] = res
    return res


def _run_case(ctx, case):
    res = core.CaseResult()
    b = core.build("asan")
    keep = str(case.get("id", "")).startswith("w")
    cfg = case.get("cfg", "native")
    d, model, stage, detail = get_module(ctx, b, case)
    res.count("programs")

    def done():
        if not keep:
            shutil.rmtree(d, ignore_errors=True)
        return res
    rcase = dict(id=case["id"], cfg=cfg, drvseed=case["drvseed"], nsteps=case["nsteps"], only=case.get("only"),
                 libseed=case.get("libseed"), n_classes=case.get("n_classes"), files=libgen.read_files(d))
    if stage is not None:
        if stage.startswith(("interrogate-died", "interrogate_module-failed")):
            res.violation(f"tool-failed:{stage}", detail=detail, replay_case=rcase)
        else:
            # compilability of generated code is C03's subject; nothing can be imported here
            import re
            m = re.search(r"error: (.*)", detail)
            msg = re.sub(r"\d+", "N", re.sub(r"[‘'`][^’']*[’']", "'X'", m.group(1)))[:80] if m else ""
            res.inconclusive = stage + (": " + msg if msg else "")
            res.count("not_built")
            res.sample = dict(cfg=cfg, libseed=case.get("libseed"), outcome=stage, detail=detail[:400])
        return done()
    progress_file = os.path.join(d, "progress-%s.txt" % case["id"])
    env = {"PYTHONMALLOC": "malloc", "PYTHONDONTWRITEBYTECODE": "1", "PYTHONHASHSEED": "0", "VF_PROGRESS": progress_file,
           "ASAN_OPTIONS": core.SAN_ENV["ASAN_OPTIONS"] + ":verify_asan_link_order=0",
           "UBSAN_OPTIONS": "print_stacktrace=1:halt_on_error=1"}
    cmd = [sys.executable, DRV, d, os.path.join(d, "liba.model.json"), str(case["drvseed"]), str(case["nsteps"]),
           "0" if "-nomangle" in CONFIGS[cfg] else "1", case.get("only") or ""]
    rr = core.run(cmd, timeout=600, env=env, preload=genbuild.asan_preload())
    if rr.timed_out:
        rr = core.run(cmd, timeout=900, env=env, preload=genbuild.asan_preload())
        if rr.timed_out:
            res.inconclusive = "driver timeout"
            return done()
    line = next((l for l in rr.out.splitlines() if l.startswith("VFRESULT ")), None)
    if line is None:
        try:
            progress = open(progress_file).read()
        except OSError:
            progress = ""
        res.count("interpreter_crashes")
        res.violation(crash_key(rr, progress), last_step=progress[:600], err=rr.err[-2500:], replay_case=rcase)
        return done()
    out = json.loads(line[len("VFRESULT "):])
    if out["error"]:
        raise core.HarnessError("drv_native failed: " + out["error"][-2500:])
    for k, v in out["counts"].items():
        res.count(k, v)
    for f in out["features"]:
        res.features.add(f)
    res.features.add("cfg:" + cfg)
    for ft in model.get("features", []):
        res.features.add("lib:" + ft)
    for key, detail in out["violations"]:
        res.violation(key, replay_case=rcase, **detail)
    res.sample = dict(cfg=cfg, libseed=case.get("libseed"), drvseed=case["drvseed"], calls=out["counts"].get("calls"),
                      events=out["counts"].get("trace_events_compared"), drops=out["counts"].get("drops"),
                      lib_features=model.get("features"))
    return done()


def main(chk):
    chk.rule = ("case = (natgen library seed, option set, history seed); a history is a random sequence of constructor / "
                "method / static / free-function / operator / property / member / sequence / item-assignment calls with "
                "category-exact, malformed (wrong count, unacceptable type, out-of-range integer, const receiver) and "
                "arbitrary argument tuples, positional and keyword, interleaved with drops and gc.collect(); distinct = "
                "(call kind, parameter categories, arity/keyword form), parameter kinds, result kinds, negative-case "
                "(argument category) signatures, name kinds and lifetime events actually exercised and judged")
    chk.assumptions = [
        "the instrumented body's own log (entity id, this, arguments, result) is the reference for what the C++ call does",
        "C++ overload resolution is approximated from the safe side: a unique category-exact overload (nearest class, "
        "non-const member for a non-const object) is demanded exactly; several category-exact overloads only as a set; "
        "calls needing a standard or user-defined conversion (int->double, bool->int, coercion constructors, None for "
        "pointers, bytes for strings) are not judged beyond 'no exception with a body run', ledger balance and no crash",
        "shim headers stand in for the Panda3D runtime (pnotify.h, register_type.h, dconfig.h); -string is always on",
        "arrays of simple types (no wrapper generated), string macros (C03 finding) and Python-side keyword support of "
        "single-argument wrappers are outside the judged subset",
    ]
    core.build("plain")
    rng = chk.rng
    cases = []
    nlibs = chk.pick(5, 40)
    def has_seq_item_assignment(seed):
        m = natgen.generate(random.Random(seed), "liba").model
        return any(c.get("item_array", {}).get("seq") for c in m["classes"])
    for i in range(nlibs):
        libseed = rng.randrange(1 << 30)
        while i < 2 and not has_seq_item_assignment(libseed):
            # the first two libraries of every run have a class with int item assignment through the sequence
            # protocol (about 1 library in 8 cannot host one: operator [] already runs through its whole hierarchy)
            libseed = rng.randrange(1 << 30)
        cases.append(dict(id=len(cases) + 1, libseed=libseed, cfg="native", drvseed=rng.randrange(1 << 30),
                          nsteps=chk.pick(500, 1500)))
        if (chk.quick() and i == 0) or (not chk.quick() and i % 4 == 0):
            cases.append(dict(id=len(cases) + 1, libseed=libseed, cfg="native-nomangle", drvseed=rng.randrange(1 << 30),
                              nsteps=chk.pick(300, 1000)))
    chk.run_cases(__name__, cases, workers=min(core.NPROC, chk.pick(6, 6)))


# ---------------------------------------------------------------------------------------------------------------
# maintenance: regenerate findings/C02.json (python3 -m vf.props.c02 regen [quick seeds...]) after natgen / libgen's
# default output changed.  Soaks the given seeds with the findings list ignored, then looks for a short focused
# witness (only=<group>) per known key; keys that are not in SUMMARY are printed and must be triaged by hand.
# ---------------------------------------------------------------------------------------------------------------
SUMMARY = [
 ("name-missing:kind=method,alias=keyword", "kw", "a method named None / True / False is exposed as-is instead of _None / _True / _False: pythonKeywords lacks the three constants (fix: proposed_fixes/C02-python-keywords-none-true-false.diff)"),
 ("name-missing:kind=static,alias=keyword", "kw", "same for a static method named None / True / False (fix: C02-python-keywords-none-true-false.diff)"),
 ("positive-rejected:exc=TypeError:param=enum-scoped:enum-value=-1", "enum", "a scoped-enum member whose value is -1 is rejected with TypeError: the generated check `_val != -1` takes the value for the error marker of Dtool_EnumValue_AsLong (fix: C02-scoped-enum-value-minus-one.diff)"),
 ("wrong-exception:got=AttributeError,want=TypeError:param=enum-scoped", "enum", "a non-enum argument for a scoped-enum parameter (or any malformed argument before it) raises AttributeError ('... has no attribute value') instead of TypeError (fix: C02-scoped-enum-value-minus-one.diff)"),
 ("body-ran-but-raised:exc=OverflowError:arg=int-out-of-range", "single", "single-argument wrappers convert with PyLong_AsLong without checking for failure: an integer beyond long runs the C++ body with -1 and only then raises OverflowError (fix: C02-single-arg-conversion-errors.diff)"),
 ("returned-with-exception-set:exc=OverflowError:arg=int-out-of-range", "single", "same defect through a slot (obj[i], obj * k, ...): the body runs with -1 and the wrapper returns a result with OverflowError still set, which surfaces at an unrelated later point (fix: C02-single-arg-conversion-errors.diff)"),
 ("body-ran-but-raised:exc=SystemError:arg=int-out-of-range", "single", "same defect in a property setter: the setter body runs with -1 and setattr fails with SystemError 'returned a result with an exception set' (fix: C02-single-arg-conversion-errors.diff)"),
 ("wrong-exception:got=SystemError,want=OverflowError:arg=int-out-of-range", "single", "same as above, seen as SystemError instead of OverflowError (fix: C02-single-arg-conversion-errors.diff)"),
 ("body-ran-but-raised:exc=TypeError:param=float,arg=instance", "single", "single-argument float/double wrappers accept anything PyNumber_Check() accepts and do not check PyFloat_AsDouble: an instance with __int__ only runs the body with -1.0, then TypeError (fix: C02-single-arg-conversion-errors.diff)"),
 ("returned-with-exception-set:exc=TypeError:args=instance", "single", "float property setters / slots given an instance with __int__ run the body with -1.0 and return success with TypeError still set (fix: C02-single-arg-conversion-errors.diff)"),
 ("returned-with-exception-set:exc=TypeError:args=instance:binary-operator", "binop", "binary and in-place operator wrappers (nb_add, nb_inplace_add, ...) return NotImplemented while the TypeError raised for the unacceptable operand is still set; Python then runs the fallback (e.g. x + y for x += y) and the stale exception surfaces later (fix: C02-binary-operator-stale-exception.diff)"),
 ("returned-with-exception-set:exc=OverflowError:arg=int-out-of-range:binary-operator", "single", "obj * k with k beyond long: the operator body runs with -1 and the result is returned with OverflowError set (fix: C02-single-arg-conversion-errors.diff)"),
 ("body-ran-but-raised:exc=SystemError:param=float,arg=instance", "single", "same in a property setter of floating type given an instance with __int__: the setter body runs with -1.0 and setattr fails with SystemError (fix: C02-single-arg-conversion-errors.diff)"),
 ("member-changed-on-error:arg=int-out-of-range", "single", "same defect in the generated setter of a published data member: assigning an integer beyond long stores -1 in the member before the error is reported (fix: C02-single-arg-conversion-errors.diff)"),
 ("wrong-exception:member-set:got=SystemError", "single", "same: the data-member setter returns success with OverflowError set, so setattr fails with SystemError (fix: C02-single-arg-conversion-errors.diff)"),
 ("state-changed-on-error:kind=method", "single", "consequence of the two above: the object's state changed although the call raised (fix: C02-single-arg-conversion-errors.diff)"),
 ("body-ran-but-raised:exc=TypeError:arg=int-out-of-range", "single", "same defect inside a converting constructor used for coercion: K(int) runs with -1 for an integer beyond long before the call is rejected (fix: C02-single-arg-conversion-errors.diff)"),
 ("default-mismatch:param=unsigned long", "literal", "a default argument 18446744073709551615ul reaches the body as 9223372036854775807: integer literals are read with strtol and clamp at LONG_MAX (fix: C02-unsigned-literal-above-long-max.diff)"),
 ("default-mismatch:param=unsigned long long", "literal", "same for unsigned long long defaults (fix: C02-unsigned-literal-above-long-max.diff)"),
 ("no-overflowerror:param=unsigned long long", "nocheck", "unsigned long long parameters are parsed with format K, which masks instead of range-checking: -1 or 2**64 run the body with a wrapped value (documented in the source as deliberately unchecked; no fix proposed)"),
 ("no-overflowerror:param=unsigned long", "nocheck", "unsigned long parameters in multi-argument wrappers are parsed with format k (no overflow check): out-of-range values wrap silently; in an overload set such an overload even takes -1 (as 2**64-1) although f(int) matches exactly (no fix proposed)"),
 ("no-overflowerror:param=unsigned int", "nocheck", "unsigned int parameters are parsed with format k and only compared with UINT_MAX afterwards: values whose low 64 bits are small (2**70, -2**70) pass (no fix proposed)"),
 ("wrong-overload:int-taken-as-float-by-earlier-overload", "order", "DESIGN §5-15: overloads are tried in the order (more parameters, higher type rank) first and a Python int is accepted for float/double parameters, so f(1, 2) runs f(int,double,int=5) although f(int,int) matches exactly (no small fix)"),
 ("wrong-overload:arg-taken-as-bool-by-earlier-overload", "order", "same family as int-taken-as-float: overloads are tried in rank order and a bool parameter accepts anything by truth testing, so K(4294967295, 16777216.0) runs K(unsigned long long, bool) (tried first: wider first parameter) although K(unsigned int, float) matches the float exactly (no small fix)"),
 ("positive-rejected:exc=OverflowError:range-check-of-other-overload", "order", "the range check of a small integer parameter raises OverflowError unconditionally, also inside an overload set: f(str, unsigned char) tried first rejects f('', 32767) although f(str, short) accepts it (no fix proposed)"),
 ("const-argument-passed-as-copy:param=obj:cref", "constcopy", "a const instance passed for a `const K &` parameter of a coercible class (default-constructible, converting constructor) reaches the body as a temporary copy (Dtool_Coerce_K copies const objects), so the callee does not see the object's identity and a returned reference dangles (no small fix)"),
 ("const-argument-passed-as-copy:param=obj:cptr", "constcopy", "same for `const K *` parameters (no small fix)"),
 ("const-argument-passed-as-copy:param=obj:ptr", "constcopy", "same defect for non-const `K *` parameters: a const instance, which C++ could not pass at all, is accepted and the function works on a temporary copy (Dtool_Coerce_K copies const objects) instead of raising TypeError (no small fix)"),
 ("const-argument-passed-as-copy:param=obj:ref", "constcopy", "same defect for non-const `K &` parameters: a const instance is accepted and the function works on a temporary copy instead of raising TypeError (no small fix)"),
 ("const-argument-passed-as-copy:result-dangles", "constcopy", "consequence: a function returning (a pointer into) its const-reference argument returns a pointer to that destroyed temporary copy; the Python result wraps freed stack memory (no small fix)"),
 ("name-missing:kind=operator,op=pos", "unaryplus", "a unary `K operator +() const` was filed under nb_add as a binary operator without operand instead of nb_positive: no __pos__ existed (fixed: 198ef93, C02-unary-plus-slot.diff)"),
 ("positive-rejected:exc=TypeError:operator=unary-plus", "unaryplus", "same: +obj raised TypeError (fixed: 198ef93)"),
 ("inplace-operator-body-not-run:named=yes", "inplace", "slots that return self discarded the call expression of named in-place methods: `K &__ipow__(double)` was never called, x **= y returned x unchanged (fixed: d7b8abf, C02-inplace-slot-call-dropped.diff)"),
 ("inherited-comparison-lost", "richcmp", "the tp_richcompare slot is written per class from its own operators only: a derived class that declares any comparison operator (or whose first base has none) no longer reaches operator== / < / ... inherited from a base; Python then falls back to identity comparison, the reflected operator or TypeError (no small fix)"),
]


def _only_for(key, detail, model):
    import re
    if key.startswith("name-missing"):
        return "@names", 0
    call = detail.get("call", "")
    if "member" in detail and not call:
        return "@member", 500
    if call.startswith("copy.copy"):
        return "@copy", 200
    if re.match(r"prop_\d+(=?\(| on|$)", call):
        return "@property", 400
    name = call.split("(")[0]
    if name.startswith("operator "):
        name = call[:call.index("(", len("operator ") + (2 if call.startswith("operator ()") else 0))]
    for c in model["classes"]:
        if c["name"] == name:
            return "ctor:" + c["qname"], 200
    return name, 250


def regen(seeds):
    seen, cases = {}, {}
    for sd in seeds:
        chk = core.Check("C02", tier="quick", seed=sd, level=LEVEL)
        chk.findings, chk.open_keys = [], {}
        main(chk)
        for k, d, c in chk.violations:
            cid = (sd, c["id"])
            cases[cid] = c
            seen.setdefault(k.replace("C02:", ""), []).append((cid, d))
        shutil.rmtree(chk.work, ignore_errors=True)
    known = [k for k, _, _ in SUMMARY]
    print("keys seen but not in SUMMARY (triage!):", sorted(set(seen) - set(known)))
    print("keys in SUMMARY not seen (add seeds):", sorted(set(known) - set(seen)))
    chk = core.Check("C02", tier="quick", seed=1, level=LEVEL)
    ctx = chk.ctx()
    weight = {}
    for k in seen:
        for cid, _ in seen[k]:
            weight[cid] = weight.get(cid, 0) + 1
    findings, used, wid = [], set(), 0
    for key, _, summary in SUMMARY:
        ok = False
        for cid, d in sorted(seen.get(key, []), key=lambda x: (x[0] not in used, -weight[x[0]]))[:6]:
            rc = cases[cid]
            only, nsteps = _only_for(key, d, json.loads(rc["files"]["liba.model.json"]))
            for drvseed in (11, 12, 13):
                wid += 1
                case = dict(id="w%d" % wid, libseed=rc["libseed"], n_classes=rc.get("n_classes"), cfg=rc["cfg"],
                            drvseed=drvseed, nsteps=nsteps, only=only)
                got = sorted(k for k, _ in _run_case(ctx, case).violations)
                if key in got and all(g in known for g in got):
                    findings.append(dict(property="C02", key="C02:" + key, status="open", summary=summary, case=case))
                    used.add(cid)
                    ok = True
                    break
            if ok:
                break
        print("witness" if ok else "NO WITNESS", key)
    out = os.environ.get("VERIF_C02_FINDINGS_OUT") or os.path.join(core.VERIF, "findings", "C02.json")
    libs = {}
    for f in findings:
        c = f["case"]
        c["lib"] = "natgen-%d" % c["libseed"]
        if c["lib"] not in libs:
            tmp = ctx.casedir("store-" + c["lib"])
            natgen.generate(random.Random(c["libseed"]), "liba", n_classes=c.get("n_classes")).write(tmp)
            libs[c["lib"]] = libgen.read_files(tmp)
    json.dump(dict(findings=findings, libs=libs), open(out, "w"), indent=1)
    shutil.rmtree(chk.work, ignore_errors=True)
    print(len(findings), "findings,", len({(f["case"]["libseed"], f["case"]["cfg"]) for f in findings}), "libraries")


if __name__ == "__main__":
    if len(sys.argv) > 1 and sys.argv[1] == "regen":
        regen([int(x) for x in sys.argv[2:]] or list(range(1, 25)))
