"""C10 -- implicit special members and class traits follow the C++ rules.

Workload: classgen hierarchies (vf/gen/classgen.py).  Authority: g++ (std::is_* traits cross-checked against
the compiler built-ins, plus `new T()` / `new T(const T&)` well-formedness for "C++ provides an accessible
constructor").  Three views of interrogate's judgement:
  enum  enumerators `t_C_abs = __is_abstract(C)` ... evaluated by interrogate's own trait expressions (database)
  pf    `parse_file -p` trait dump
  db    constructor / destructor lists of every class in the database, under -promiscuous and default visibility
"""
import copy
import os
import random
import re
import shutil

from vf import core, tools
from vf.gen import classgen as cg

LEVEL = "exploration"

TRAITS = ["abs", "dc", "cc", "d", "poly"]
TRAIT_EXPR = {          # interrogate-side expressions (view enum)
    "abs": "__is_abstract({N})",
    "dc": "__is_constructible({N})",
    "cc": "__is_constructible({N}, const {N} &)",
    "d": "__is_destructible({N})",
    "poly": "__is_polymorphic({N})",
}
TRAIT_LONG = {"abs": "abstract", "dc": "default_constructible", "cc": "copy_constructible", "d": "destructible",
              "poly": "polymorphic"}
PF_FIELD = {"abs": "is_abstract", "dc": "is_default_constructible", "cc": "is_copy_constructible",
            "d": "is_destructible"}

CLANG = shutil.which("clang++-14") or shutil.which("clang++")

ORACLE_HEAD = r'''
extern "C" int printf(const char *, ...);
template<class T> T &&vf_dv();
template<class T, class = void> struct vf_d { enum { v = 0 }; };
template<class T> struct vf_d<T, decltype(void(vf_dv<T &>().~T()))> { enum { v = 1 }; };
template<class T, class = void> struct vf_nd { enum { v = 0 }; };
template<class T> struct vf_nd<T, decltype(void(new T()))> { enum { v = 1 }; };
template<class T, class = void> struct vf_nc { enum { v = 0 }; };
template<class T> struct vf_nc<T, decltype(void(new T(vf_dv<const T &>())))> { enum { v = 1 }; };
int vf_g_int;
'''


# ---------------------------------------------------------------------------
# judging one header (one class per line) by g++ and by interrogate
# ---------------------------------------------------------------------------

def _err_lines(text, fname):
    out = set()
    for m in re.finditer(r"(?m)^(?:In file included from )?([^\s:]+):(\d+):(?:\d+:)? (?:fatal )?error", text):
        if os.path.basename(m.group(1)) == fname:
            out.add(int(m.group(2)))
    return out


def gxx_oracle(d, header_text, names, full):
    """-> (values {name: {trait: 0/1, 'nd','nc'}}, bad_header_lines, problem)"""
    open(os.path.join(d, "t.h"), "w").write(header_text)
    src = ("#include <type_traits>\n" if full else "") + '#include "t.h"\n' + ORACLE_HEAD + "int main() {\n"
    first = src.count("\n") + 1
    for n in names:
        fields = [f"__is_abstract({n})", f"__is_constructible({n})", f"__is_constructible({n}, const {n} &)",
                  f"(int)vf_d<{n}>::v", f"__is_polymorphic({n})", f"(int)vf_nd<{n}>::v", f"(int)vf_nc<{n}>::v"]
        if full:
            fields += [f"(int)std::is_abstract<{n}>::value", f"(int)std::is_default_constructible<{n}>::value",
                       f"(int)std::is_copy_constructible<{n}>::value", f"(int)std::is_destructible<{n}>::value",
                       f"(int)std::is_polymorphic<{n}>::value"]
        src += f'printf("{n}' + " %d" * len(fields) + '\\n", ' + ", ".join(fields) + ");\n"
    src += "return 0; }\n"
    open(os.path.join(d, "o.cxx"), "w").write(src)
    exe = os.path.join(d, "o.exe")
    r = tools.gxx(["-w", "-fmax-errors=0", "-o", exe, "o.cxx"], cwd=d)
    if r.rc != 0:
        bad = _err_lines(r.err, "t.h")
        # a trait that cannot be evaluated without a hard error (e.g. synthesising an implicit destructor that is
        # ill-formed) makes its class unjudgeable: "required from here" names the printf line of that class
        req = {int(m.group(1)) for m in re.finditer(r"(?m)^o\.cxx:(\d+):\d+:\s+required from here", r.err)}
        for ln in set(_err_lines(r.err, "o.cxx")) | req:
            k = ln - first
            if 0 <= k < len(names):
                bad.add(("name", names[k]))
        return None, bad, r.err[-1500:]
    r = core.run([exe], timeout=20)
    if r.rc != 0:
        return None, set(), "oracle program failed: " + r.how()
    second = None
    second_bad = set()
    if full and CLANG:
        exe2 = os.path.join(d, "o2.exe")
        r2 = core.run([CLANG, "-std=gnu++17", "-w", "-ferror-limit=0", "-o", exe2, "o.cxx"], cwd=d, timeout=180)
        if r2.rc == 0:
            r3 = core.run([exe2], timeout=20)
            if r3.rc == 0:
                second = {ln.split()[0]: ln.split()[1:] for ln in r3.out.splitlines() if ln.strip()}
        else:
            for ln in _err_lines(r2.err, "t.h"):
                second_bad.add(ln)
    vals = {}
    for line in r.out.splitlines():
        p = line.split()
        v = [int(x) for x in p[1:]]
        e = dict(abs=v[0], dc=v[1], cc=v[2], d=v[3], poly=v[4], nd=v[5], nc=v[6])
        if full and v[7:12] != v[0:5]:
            e["disagree"] = True     # std:: traits and built-ins differ: no verdict for this class
        if second is not None:
            if second.get(p[0]) != p[1:]:
                e["disagree"] = True  # g++ and clang differ: no verdict for this class
        elif full:
            e["single_reference"] = True
        vals[p[0]] = e
    if second_bad:
        lines = header_text.split("\n")
        for ln in second_bad:
            if 0 < ln <= len(lines):
                m = re.match(r"(?:struct|class) (\w+)", lines[ln - 1])
                if m and m.group(1) in vals:
                    vals[m.group(1)]["disagree"] = True
    return vals, set(), None


def ig_enum_block(names):
    rows = []
    for n in names:
        rows.append(" " + ", ".join(f"t_{n}_{t} = " + TRAIT_EXPR[t].format(N=n) for t in TRAITS) + ",")
    return "#ifdef CPPPARSER\nenum VfTraits {\n" + "\n".join(rows) + "\n};\n#endif\n"


def ig_db(b, d, header_text, names, promiscuous, with_enum):
    """-> (info, bad_lines, problem); info = {'enum': {name: {trait: v}}, 'db': {name: {...}}}"""
    sub = os.path.join(d, "p" if promiscuous else "q")
    os.makedirs(sub, exist_ok=True)
    h = os.path.join(sub, "t.h")
    open(h, "w").write(header_text + (ig_enum_block(names) if with_enum else ""))
    opts = ["-c", "-fnames"] + (["-promiscuous"] if promiscuous else [])
    r, p = tools.interrogate(b, [h], sub, opts=opts)
    if r.timed_out:
        return None, set(), "timeout"
    if r.died() and not _err_lines(r.err, "t.h"):
        # the tool aborted (assertion) without naming a line: the offending class is the last one of the shortest
        # dying prefix (classes only refer to earlier classes, so every prefix is a valid header)
        lines = header_text.rstrip("\n").split("\n")
        head, body = lines[:cg.PRELUDE_LINES], lines[cg.PRELUDE_LINES:]

        def dies(k):
            open(h, "w").write("\n".join(head + body[:k]) + "\n" + (ig_enum_block(names[:k]) if with_enum else ""))
            rr, _p = tools.interrogate(b, [h], sub, opts=opts)
            return rr.died()
        lo, hi = 0, len(body)
        if len(body) == len(names) and not dies(0):
            while hi - lo > 1:
                mid = (lo + hi) // 2
                if dies(mid):
                    hi = mid
                else:
                    lo = mid
            return None, {cg.PRELUDE_LINES + hi}, "interrogate aborted on class " + names[hi - 1] + ": " + r.how()
    if r.rc != 0 or r.died():
        return None, _err_lines(r.err, "t.h"), "interrogate: " + r.how() + " " + r.err[-300:]
    rr, dd = tools.idbdump([p["od"]])
    if dd is None:
        return None, set(), "idbdump failed: " + rr.how()
    db = tools.Db(dd)
    info = {"enum": {}, "db": {}}
    for t in db.types.values():
        if t["name"] == "VfTraits" and t["is_enum"]:
            for ev in t["enum_values"]:
                m = re.match(r"t_(\w+)_(abs|dc|cc|d|poly)$", ev["name"])
                if m:
                    info["enum"].setdefault(m.group(1), {})[m.group(2)] = ev["value"]
    want = set(names)
    # a class template is judged through `typedef CkT<int> Ck;`: the record of the instantiation stands for Ck
    alias = {}
    for t in db.types.values():
        if t["name"] in want and t["is_typedef"] and t["wrapped_type"] in db.types:
            alias[t["wrapped_type"]] = t["name"]
    for t in db.types.values():
        if t["index"] in alias and (t["is_struct"] or t["is_class"]) and t["is_fully_defined"]:
            t = dict(t, name=alias[t["index"]], true_name=alias[t["index"]])
        if t["name"] in want and (t["is_struct"] or t["is_class"]) and t["is_fully_defined"] \
                and t["true_name"] == t["name"]:
            n_def = n_copy = n_all = 0
            for ci in t["constructors"]:
                f = db.functions.get(ci)
                if not f:
                    continue
                for wi in f["c_wrappers"]:
                    w = db.wrappers.get(wi)
                    if not w:
                        continue
                    n_all += 1
                    if w["copy_constructor"]:
                        n_copy += 1
                    elif len(w["params"]) == 0:
                        n_def += 1
            info["db"][t["name"]] = dict(ctors=n_all, default=n_def, copy=n_copy,
                                         dtor=1 if (t["has_destructor"] and t["destructor"] != 0) else 0)
    return info, set(), None


def pf_view(b, d, header_text, names):
    h = os.path.join(d, "pf.h")
    open(h, "w").write(header_text)
    # parse_file -p reads the type names from stdin
    cmd = [b.parse_file, "-p", "-D__cplusplus=201703L", "-S" + b.parser_inc, h]
    r = core.run(cmd, cwd=d, timeout=60, input=("\n".join(names) + "\n").encode())
    if r.timed_out:
        return None, set(), "timeout"
    if r.rc != 0 or r.died():
        return None, _err_lines(r.err, "pf.h"), "parse_file: " + r.how() + " " + r.err[-300:]
    out = {}
    for blk in re.split(r"(?m)^Enter an expression or type name:\s*$", r.out):
        m = re.search(r"(?m)^Type: (\w+)\s*$", blk)
        if not m:
            continue
        e = {}
        for t, fld in PF_FIELD.items():
            mm = re.search(r"(?m)^" + fld + r" = (\d+)\s*$", blk)
            if mm:
                e[t] = int(mm.group(1))
        out[m.group(1)] = e
    return out, set(), None


# ---------------------------------------------------------------------------
# comparing
# ---------------------------------------------------------------------------

def has_tag(c, prefix):
    return any(m["tag"].startswith(prefix) for m in c["members"])


def mismatches(c, g, views):
    """c: class model, g: g++ values, views: {'enum':{}, 'pf':{}, 'dbp':{}, 'dbd':{}} (entries may be missing).
    -> list of descriptors (category, what, view, got)"""
    out = []
    if g is None or g.get("disagree"):
        return out
    for v in ("enum", "pf"):
        e = views.get(v)
        if not e:
            continue
        for t in TRAITS:
            if t in ("dc", "cc") and not g["d"]:
                # std::is_constructible also demands destructibility, while "C++ provides an accessible
                # constructor" does not: the two halves of the statement disagree here -> unspecified
                continue
            if t in e and int(bool(e[t])) != g[t]:
                out.append(("trait-mismatch", t, v, int(bool(e[t]))))
    for v in ("dbp", "dbd"):
        e = views.get(v)
        if not e:
            continue
        if not has_tag(c, "ctor-default"):
            if (e["default"] > 0) != bool(g["nd"]):
                out.append(("export-mismatch", "default-ctor", v, "exported" if e["default"] else "missing"))
        if not has_tag(c, "ctor-copy"):
            if (e["copy"] > 0) != bool(g["nc"]):
                out.append(("export-mismatch", "copy-ctor", v, "exported" if e["copy"] else "missing"))
        if not has_tag(c, "dtor:"):
            if bool(e["dtor"]) != bool(g["d"]):
                out.append(("export-mismatch", "dtor", v, "exported" if e["dtor"] else "missing"))
        if g["abs"] and e["ctors"] > 0:
            out.append(("export-mismatch", "abstract-ctor", v, "exported"))
    return out


class Judge:
    """evaluates models (possibly several renamed variants in one TU) under a set of views."""

    def __init__(self, b, workdir):
        self.b = b
        self.work = workdir
        self.n = 0
        self.runs = 0
        self.max_runs = 120      # per case; a witness that is not fully reduced by then is still reported

    def newdir(self):
        self.n += 1
        d = os.path.join(self.work, f"j{self.n}")
        os.makedirs(d, exist_ok=True)
        return d

    def judge(self, variants, need, full=False):
        """variants: list of models (class names unique across the list).  need: subset of
        {'enum','pf','dbp','dbd'}.  -> list of per-variant results: None (rejected by g++ / tool) or
        {name: (gvals, views)}; plus stats dict."""
        stats = dict(gxx_rejected=0, parser_rejected=0, tool_aborted=0)
        alive = list(range(len(variants)))
        models = [copy.deepcopy(v) for v in variants]
        result = [None] * len(variants)
        for _attempt in range(8):
            if not alive:
                break
            d = self.newdir()
            self.runs += 1
            lines_owner = []          # header line (after prelude) -> (variant idx, class name)
            for vi in alive:
                for c in models[vi]["classes"]:
                    lines_owner.append((vi, c["name"]))
            text = cg.PRELUDE + "".join(cg.render_class(c) + "\n" for vi in alive for c in models[vi]["classes"])
            names = [n for _, n in lines_owner]
            if not names:
                break

            def owners(bad):
                res = set()
                for x in bad:
                    if isinstance(x, tuple):
                        res.update(o for o in lines_owner if o[1] == x[1])
                    else:
                        k = x - cg.PRELUDE_LINES - 1
                        if 0 <= k < len(lines_owner):
                            res.add(lines_owner[k])
                return res

            def drop(bad_owners, counter):
                if not bad_owners:
                    return False
                byv = {}
                for vi, n in bad_owners:
                    byv.setdefault(vi, set()).add(n)
                for vi, ns in byv.items():
                    before = len(models[vi]["classes"])
                    models[vi] = cg.drop_classes(models[vi], ns)
                    stats[counter] += before - len(models[vi]["classes"])
                return True

            g, bad, prob = gxx_oracle(d, text, names, full)
            if g is None:
                if not drop(owners(bad), "gxx_rejected"):
                    raise core.HarnessError("g++ oracle failed without naming a class: " + str(prob))
                continue
            views = {}
            retry = False
            if "pf" in need:
                v, bad, prob = pf_view(self.b, d, text, names)
                if v is None:
                    if drop(owners(bad), "parser_rejected"):
                        retry = True
                    else:
                        stats["tool_problem"] = prob
                        return result, stats
                views["pf"] = v
            if not retry and ("enum" in need or "dbp" in need):
                v, bad, prob = ig_db(self.b, d, text, names, True, "enum" in need)
                if v is None:
                    if drop(owners(bad), "tool_aborted" if "aborted on class" in str(prob) else "parser_rejected"):
                        retry = True
                    else:
                        stats["tool_problem"] = prob
                        return result, stats
                else:
                    views["enum"] = v["enum"] if "enum" in need else None
                    views["dbp"] = v["db"] if "dbp" in need else None
            if not retry and "dbd" in need:
                v, bad, prob = ig_db(self.b, d, text, names, False, False)
                if v is None:
                    if drop(owners(bad), "parser_rejected"):
                        retry = True
                    else:
                        stats["tool_problem"] = prob
                        return result, stats
                else:
                    views["dbd"] = v["db"]
            if retry:
                continue
            for vi in alive:
                res = {}
                for c in models[vi]["classes"]:
                    n = c["name"]
                    pv = {k: (views[k] or {}).get(n) for k in views if views[k] is not None}
                    res[n] = (g.get(n), pv)
                result[vi] = (models[vi], res)
            return result, stats
        return result, stats


# ---------------------------------------------------------------------------
# minimisation
# ---------------------------------------------------------------------------

def rename_model(model, suffix):
    m = copy.deepcopy(model)
    f = (lambda n: n + suffix)
    for c in m["classes"]:
        c["name"] = f(c["name"])
        for b in c["bases"]:
            b["ref"] = f(b["ref"])
        for x in c["members"]:
            if x.get("ref"):
                x["ref"] = f(x["ref"])
    return m


def ensure_ids(model):
    for c in model["classes"]:
        for k, m in enumerate(c["members"]):
            m.setdefault("id", k)


def steps(model, target):
    ops = []
    for c in model["classes"]:
        if c["name"] != target:
            ops.append(("rmclass", c["name"]))
    for c in model["classes"]:
        for b in c["bases"]:
            ops.append(("rmbase", c["name"], b["ref"]))
        for m in c["members"]:
            if m["tag"] != "fn:published":      # marker that keeps the class visible in default-visibility runs
                ops.append(("rmmember", c["name"], m["id"]))
    by = {c["name"]: c for c in model["classes"]}
    for c in model["classes"]:
        for b in c["bases"]:
            if by.get(b["ref"]) and by[b["ref"]]["bases"]:
                ops.append(("hoistbase", c["name"], b["ref"]))
        for m in c["members"]:
            r = by.get(m.get("ref"))
            if r:
                for nr in [x["ref"] for x in r["bases"]] + [x["ref"] for x in r["members"] if x.get("ref")]:
                    ops.append(("mref", c["name"], m["id"], nr))
    for c in model["classes"]:
        if c.get("tmpl"):
            ops.append(("untemplate", c["name"]))
        for e in c["bases"] + [m for m in c["members"] if m.get("ref")]:
            if e.get("targ") == "int":
                ops.append(("aliasref", c["name"], e["ref"]))
    for c in model["classes"]:
        if c["kw"] == "class":
            ops.append(("kwcanon", c["name"]))
            ops.append(("kw", c["name"]))
        if c.get("final"):
            ops.append(("final", c["name"]))
        for b in c["bases"]:
            if b.get("virtual"):
                ops.append(("basevirt", c["name"], b["ref"]))
            if b.get("access") not in ("", "public"):
                ops.append(("baseacc", c["name"], b["ref"], "public"))
            elif b.get("access") == "public" and c["kw"] == "struct" and not b.get("virtual"):
                ops.append(("baseacc", c["name"], b["ref"], ""))
        for m in c["members"]:
            if m.get("access") and m["tag"] != "fn:published":
                ops.append(("macc", c["name"], m["id"], ""))
                if m["access"] == "private":
                    ops.append(("macc", c["name"], m["id"], "protected"))
            for alt in cg.SIMPLER.get(m["tag"], []):
                ops.append(("mtag", c["name"], m["id"], alt))
    return ops


def apply_op(model, op):
    """-> new model or None when not applicable"""
    m = copy.deepcopy(model)
    by = {c["name"]: c for c in m["classes"]}
    k = op[0]
    if k == "rmclass":
        if op[1] not in by:
            return None
        m["classes"] = [c for c in m["classes"] if c["name"] != op[1]]
        for c in m["classes"]:
            c["bases"] = [b for b in c["bases"] if b["ref"] != op[1]]
            c["members"] = [x for x in c["members"] if x.get("ref") != op[1]]
        return m
    c = by.get(op[1])
    if c is None:
        return None
    if k == "rmbase":
        n = len(c["bases"])
        c["bases"] = [b for b in c["bases"] if b["ref"] != op[2]]
        return m if len(c["bases"]) != n else None
    if k == "rmmember":
        n = len(c["members"])
        c["members"] = [x for x in c["members"] if x["id"] != op[2]]
        return m if len(c["members"]) != n else None
    if k == "untemplate":       # an ordinary class of the same shape (T becomes int)
        if not c.get("tmpl"):
            return None
        c.pop("tmpl")
        for o in m["classes"]:
            for e in o["bases"] + o["members"]:
                if e.get("ref") == op[1]:
                    e.pop("targ", None)
        return m
    if k == "aliasref":         # name the instantiation through its typedef instead of the template-id
        done = False
        for e in c["bases"] + c["members"]:
            if e.get("ref") == op[2] and e.get("targ") == "int":
                e.pop("targ")
                done = True
        return m if done else None
    if k == "kw":
        if c["kw"] != "class":
            return None
        c["kw"] = "struct"
        return m
    if k == "kwcanon":          # meaning-preserving: make the default access explicit, then use `struct`
        if c["kw"] != "class":
            return None
        c["kw"] = "struct"
        for b in c["bases"]:
            if not b.get("access"):
                b["access"] = "private"
        for x in c["members"]:
            if not x.get("access"):
                x["access"] = "private"
        return m
    if k == "hoistbase":
        ref = by.get(op[2])
        if ref is None or not any(b["ref"] == op[2] for b in c["bases"]):
            return None
        have = {b["ref"] for b in c["bases"]}
        nb = []
        for b in c["bases"]:
            if b["ref"] == op[2]:
                for rb in ref["bases"]:
                    if rb["ref"] not in have:
                        nb.append(copy.deepcopy(rb))
                        have.add(rb["ref"])
            else:
                nb.append(b)
        c["bases"] = nb
        return m
    if k == "mref":
        for x in c["members"]:
            if x["id"] == op[2] and x.get("ref") and x["ref"] != op[3] and op[3] in by:
                x["ref"] = op[3]
                return m
        return None
    if k == "final":
        if not c.get("final"):
            return None
        c["final"] = False
        return m
    if k in ("basevirt", "baseacc"):
        for b in c["bases"]:
            if b["ref"] == op[2]:
                if k == "basevirt":
                    if not b.get("virtual"):
                        return None
                    b["virtual"] = False
                else:
                    if b.get("access") == op[3]:
                        return None
                    if op[3] == "" and b.get("virtual"):
                        return None
                    b["access"] = op[3]
                return m
        return None
    if k in ("macc", "mtag"):
        for x in c["members"]:
            if x["id"] == op[2]:
                if k == "macc":
                    if not x.get("access") or x["access"] == op[3]:
                        return None
                    x["access"] = op[3]
                else:
                    if x["tag"] == op[3]:
                        return None
                    x["tag"] = op[3]
                    if op[3] in cg.MEMBER_TEXT and "{R}" not in cg.MEMBER_TEXT[op[3]]:
                        x.pop("ref", None)
                return m
        return None
    return None


VIEW_NEED = {"enum": "enum", "pf": "pf", "dbp": "dbp", "dbd": "dbd"}


def minimise(judge, model, target, desc, budget=30):
    """greedy batched reduction of `model` keeping mismatch descriptor `desc` on class `target`."""
    need = {VIEW_NEED[desc[2]]}
    cur = cg.closure(model, target)
    ensure_ids(cur)

    def persists(entry, tname):
        if entry is None:
            return False
        mod, res = entry
        if tname not in res:
            return False
        c = [x for x in mod["classes"] if x["name"] == tname][0]
        g, views = res[tname]
        return desc in mismatches(c, g, views)

    rounds = 0
    while rounds < budget and judge.runs < judge.max_runs:
        rounds += 1
        ops = steps(cur, target)
        cands = []
        for i, op in enumerate(ops):
            m2 = apply_op(cur, op)
            if m2 is not None:
                cands.append((op, m2))
        if not cands:
            break
        variants = [rename_model(m2, f"_{i}") for i, (op, m2) in enumerate(cands)]
        res, _ = judge.judge(variants, need)
        good = [cands[i] for i in range(len(cands)) if persists(res[i], f"{target}_{i}")]
        if not good:
            break
        if len(good) == 1:
            cur = good[0][1]
            continue
        # cumulative application of the individually-good steps, all prefixes judged in one batch;
        # take the longest prefix that still shows the disagreement
        prefixes = []
        acc = cur
        for op, _m in good:
            j2 = apply_op(acc, op)
            if j2 is not None:
                acc = j2
                prefixes.append(acc)
        variants = [rename_model(m2, f"_{i}") for i, m2 in enumerate(prefixes)]
        res, _ = judge.judge(variants, need)
        best = None
        for i in range(len(prefixes) - 1, -1, -1):
            if persists(res[i], f"{target}_{i}"):
                best = prefixes[i]
                break
        cur = best if best is not None else good[0][1]
    return cur


# Root-cause classes.  A witness is 1-minimal (every remaining feature is necessary for the disagreement), so a
# witness that *needs* the trigger feature of a cause class below is explained by that class.  The classes are
# narrow on purpose (trait, direction and trigger all have to match); everything else keeps its full feature
# signature as key, so an unrelated defect never inherits one of these names.
CONST_MEMBERS = {"data:const-int", "data:array-const-int", "data:const-class", "data:const-ptr"}
DEFAULTED = {"dc": {"ctor-default:default"}, "default-ctor": {"ctor-default:default"},
             "cc": {"ctor-copy:default"}, "copy-ctor": {"ctor-copy:default"},
             "d": {"dtor:default", "dtor:virtual-default"}, "dtor": {"dtor:default", "dtor:virtual-default"}}
VIRT = {t for t in cg.MEMBER_TEXT if t.startswith("virt:")}


def cause_of(cat, what, got, via, feats):
    """feats: leaf features with access suffix.  -> cause name or None"""
    bare = {f.split("@")[0] for f in feats}
    nonpub_dtor = {f for f in feats if f.startswith("dtor:") and ("@" in f or f.startswith("dtor:delete"))}
    ctorish = what in ("dc", "cc", "default-ctor", "copy-ctor")
    over = got in (1, "exported")          # interrogate says yes / exports, C++ says no
    under = got in (0, "missing")
    if "dependent-base" in bare and "template" in bare:
        # (the instantiated base `B< int >` of `D<int> : B<T>` is a distinct, unsubstituted object: its T-typed
        # members stay template parameters and it is not the same type as a directly named B<int>)
        return "dependent-base-class-not-instantiated"
    if "template" in bare and under and via != "self" and "dependent-member-type" not in bare:
        # the witness needs the derived class to be a template although its bases are ordinary classes
        # (the `untemplate` step was tried and passed): instantiation re-substitutes the non-dependent base
        return "non-dependent-base-of-template-misjudged"
    if what in ("dc", "default-ctor") and over and len(bare) == 1 and bare <= CONST_MEMBERS:
        return "const-member-no-init"
    if over and (set(feats) & DEFAULTED.get(what, set())):
        # (an accessible defaulted member: `@protected`/`@private` ones are a matter of access, not of deletion)
        return "defaulted-member-that-is-deleted"
    if what in ("cc", "copy-ctor") and "ctor-copy:dflt2" in bare:
        return "copy-ctor-with-defaulted-extra-parameter-not-recognised"
    if what in ("cc", "copy-ctor") and over and "ctor-copy:nonconst" in bare:
        return "copy-ctor-taking-nonconst-ref"
    if "dtor:pure" in bare and via != "self" and ((what == "abs" and got == 1) or (ctorish and under)) \
            and bare <= {"dtor:pure"} | VIRT:
        return "pure-virtual-dtor-inherited-as-pure"
    if what in ("dc", "default-ctor") and under and bare == {"data:ref-init"}:
        return "reference-member-with-initializer"
    if cat == "export-mismatch" and what == "copy-ctor" and under and via == "self" and len(feats) == 1 \
            and nonpub_dtor:
        return "own-dtor-inaccessible-suppresses-copy-ctor"
    if ctorish and under and via != "self" and bare and bare <= VIRT and any("pure" in f for f in bare):
        return "abstract-base-makes-derived-unconstructible"
    if "vbase" in bare and what in ("d", "dtor") and under and nonpub_dtor:
        return "abstract-class-virtual-base-dtor"
    if "vbase" in bare and bare <= VIRT | {"vbase"} and any("pure" in f for f in bare) and \
            ((what == "abs" and got == 1) or (ctorish and under)):
        return "virtual-base-final-overrider-ignored"
    if "vbase" in bare and over:
        return "virtual-base-of-base-ignored"
    if "data:array-class" in bare and over and via != "self":
        return "array-member-subobject-ignored"
    if ctorish and over and via != "self" and nonpub_dtor and \
            bare <= {t for t in cg.MEMBER_TEXT if t.startswith("dtor:")} | {"ctor-copy:user", "ctor-default:user"}:
        return "subobject-dtor-inaccessible-ignored-for-ctor"
    return None


def key_of(desc, model, target):
    cat, what, view, got = desc
    via, fl = cg.feature_tags(model, target)
    cause = cause_of(cat, what, got, via, fl)
    name = TRAIT_LONG.get(what, what)
    head = f"trait-mismatch:trait={name}" if cat == "trait-mismatch" else f"export-mismatch:what={what}"
    if cause:
        return f"{head},got={got},cause={cause}"
    feats = "+".join(fl) or "none"
    return f"{head},got={got},via={via},feature={feats}"


# ---------------------------------------------------------------------------
# case
# ---------------------------------------------------------------------------

def prepare(chk):
    core.build("asan")
    tools.idbdump_path("asan")


def run_case(ctx, case):
    res = core.CaseResult()
    b = core.build("asan")
    d = ctx.casedir(case["id"])
    if "model" in case:
        model = copy.deepcopy(case["model"])
    else:
        rng = random.Random(case["seed"])
        model = cg.gen_model(rng, n_classes=case.get("n", 12), depth_max=case.get("depth", 4),
                             width_max=case.get("width", 3))
    ensure_ids(model)
    judge = Judge(b, d)
    out, stats = judge.judge([model], {"enum", "pf", "dbp", "dbd"}, full=True)
    res.count("classes_rejected_by_reference", stats.get("gxx_rejected", 0))
    res.count("classes_rejected_by_parser", stats.get("parser_rejected", 0))
    res.count("classes_dropped_tool_abort", stats.get("tool_aborted", 0))
    if out[0] is None:
        res.inconclusive = "tool problem: " + str(stats.get("tool_problem", "all classes rejected"))[:200]
        return res
    model, table = out[0]
    by = {c["name"]: c for c in model["classes"]}
    viol = []     # (name, desc)
    for n, (g, views) in table.items():
        c = by[n]
        if g is None:
            continue
        if g.get("disagree"):
            res.count("classes_references_disagree")
            continue
        res.count("classes_judged")
        nviews = 0
        for v in ("enum", "pf"):
            if views.get(v):
                res.count("trait_values_compared", len([t for t in TRAITS if t in views[v]]))
                nviews += 1
                missing = [t for t in TRAITS if t not in views[v] and (v == "enum" or t in PF_FIELD)]
                if missing:
                    res.count("trait_values_unevaluated", len(missing))
        for v in ("dbp", "dbd"):
            if views.get(v):
                res.count("db_class_records_compared")
        fs = cg.class_features(c)
        sig = "|".join(sorted(fs)) + "=>" + "".join(str(g[t]) for t in TRAITS) + str(g["nd"]) + str(g["nc"])
        res.features.add(sig)
        for ds in mismatches(c, g, views):
            viol.append((n, ds))
    res.sample = {"header": cg.render(model, prelude=False)[:1500],
                  "gxx": {n: {k: v for k, v in g.items()} for n, (g, _) in list(table.items())[:3] if g}}
    if viol:
        # group per class; minimise primary descriptor, then see which others persist on the minimal witness
        cap = case.get("min_cap", 4)
        bycls = {}
        for n, ds in viol:
            bycls.setdefault(n, []).append(ds)
        order = sorted(bycls, key=lambda n: (len(cg.closure(model, n)["classes"]), n))
        seen_kinds = set()
        chosen = []
        for n in order:
            kinds = frozenset((ds[0], ds[1], ds[3]) for ds in bycls[n])
            if kinds in seen_kinds:
                continue
            seen_kinds.add(kinds)
            chosen.append(n)
        rest = [n for n in order if n not in chosen]
        todo = (chosen + rest)[:cap]
        res.count("violating_classes", len(bycls))
        if not case.get("minimal"):
            res.count("violating_classes_not_minimised", len(bycls) - len(todo))
        reported = set()
        if case.get("minimal"):
            # stored witnesses (findings / regression corpus): each violating class with its closure is already
            # a minimal witness, so the key is computed directly
            for n in sorted(bycls):
                mm = cg.closure(model, n)
                groups = {}
                for ds in bycls[n]:
                    groups.setdefault((ds[0], ds[1], ds[3]), []).append(ds[2])
                for (cat, what, got), vs in groups.items():
                    key = key_of((cat, what, "", got), mm, n)
                    if key not in reported:
                        reported.add(key)
                        res.violation(key, witness=cg.render(mm, prelude=False), target=n, views=sorted(set(vs)),
                                      got=got, expected="g++: " + str(table[n][0]), model=mm)
            todo = []
        for n in todo:
            pending = list(bycls[n])
            guard = 0
            while pending and guard < 3:
                guard += 1
                pref = sorted(pending, key=lambda ds: {"pf": 0, "enum": 1, "dbp": 2, "dbd": 3}[ds[2]])[0]
                mm = minimise(judge, model, n, pref)
                # the minimal witness is judged again by every view and by both reference compilers
                out2, _ = judge.judge([mm], {"enum", "pf", "dbp", "dbd"}, full=True)
                found = []
                if out2[0] is not None:
                    mod2, tab2 = out2[0]
                    c2 = [x for x in mod2["classes"] if x["name"] == n]
                    if c2 and n in tab2:
                        if tab2[n][0] is not None and tab2[n][0].get("disagree"):
                            res.count("violations_dropped_references_disagree", len(pending))
                            break
                        found = mismatches(c2[0], tab2[n][0], tab2[n][1])
                if pref not in found:
                    res.count("violations_not_reproduced_on_minimal_witness")
                    pending = [ds for ds in pending if ds != pref]
                    continue
                # fold views: one key per (category, what, got)
                groups = {}
                for ds in found:
                    if ds in pending or ds == pref:
                        groups.setdefault((ds[0], ds[1], ds[3]), []).append(ds[2])
                for (cat, what, got), vs in groups.items():
                    key = key_of((cat, what, "", got), mm, n)
                    if key not in reported:
                        reported.add(key)
                        res.violation(key, witness=cg.render(mm, prelude=False), target=n,
                                      views=sorted(set(vs)), got=got,
                                      expected="g++: " + str(out2[0][1][n][0] if out2[0] is not None and n in out2[0][1] else None),
                                      model=mm)
                pending = [ds for ds in pending if ds not in found]
    res.count("judge_runs", judge.runs)
    return res


def main(chk):
    chk.rule = ("classgen hierarchies (12 classes per TU, depth<=4, width<=3) over the special-member alphabet; every "
                "class g++ accepts is judged by std::is_abstract/default_constructible/copy_constructible/"
                "destructible/polymorphic (cross-checked with the built-ins) and by `new T()`/`new T(const T&)`; "
                "a case is distinct by (set of member/base feature tags of the class => vector of g++ verdicts)")
    chk.assumptions = [
        "g++ 12 -std=gnu++17 is the authority for the five traits and for accessibility of constructors",
        "std::is_* and the compiler built-ins must agree, and clang++-14 (when installed) must print the same "
        "values as g++ for a class, otherwise the class is not judged",
        "interrogate's judgement is observed through __is_* enumerators in the database, parse_file -p and the "
        "constructor/destructor lists of the database (-promiscuous and default visibility)",
        "only implicit (not user-declared) members are compared against the database lists, as the statement says",
    ]
    n = chk.pick(144, 640)
    cases = []
    for k in range(n):
        cases.append({"id": k, "seed": chk.rng.getrandbits(48), "n": 12,
                      "depth": 4, "width": 3, "min_cap": chk.pick(4, 6)})
    chk.run_cases(__name__, cases)
