"""C18 -- floating-point literals keep their value from header to generated code.

Three monitors (DESIGN.md §3 C18):

 fmt    harness/fp_harness.cxx linked with the tree's pdtoa.cxx: strtod(pdtoa(x)) == x bitwise over stratified
        random doubles, subnormals, every power of two and ten (+-2 ulp), integers around 2^53, short decimals,
        float32 values (thorough: every float32 bit pattern); also: output parses completely, has floating form,
        fits the smallest buffer a caller provides (32 bytes); an ASan build of the same harness (linked against the
        asan flavour's libdtoolbase.a) runs a sample for memory errors.
 parse  the tree's pstrtod.cxx: pstrtod(s) == strtod(s) (glibc, C locale) over generated decimal spellings and over
        pdtoa outputs, plus agreement of the end pointer.
 e2e    generated headers with floating default arguments and float macros -> interrogate (-python-native / -c /
        -python) -> the literal text found in the database prototypes, in the generated wrappers' initialisers and
        comments, and in the manifest definitions, parsed by glibc, must give the parameter the value g++ gives it
        from the source literal (g++ is run on every header: syntax and the value of every literal).

All three are repeated under a synthesised comma-decimal locale (setlocale(LC_ALL, "") inside the harness process;
LC_ALL/LOCPATH for the tools).
"""
import fcntl
import hashlib
import os
import random
import re
import shutil
import subprocess

from vf import core, tools
from vf.gen import fpgen

LEVEL = "exploration"

# An NDEBUG build of the tool (CMAKE_BUILD_TYPE=Release), registered here because vf/core.py is not ours to edit: the
# asan/ubsan/standard flavours all keep assert() active, and a defect that an assertion happens to catch there is
# *silent* in the release builds users install -- the wrong value has to be observed where it is produced.
core.FLAVORS.setdefault("release", dict(cxx="g++", flags="", ldflags="", bt="Release", targets=["interrogate"]))
LOCALE_NAME = "xx_XX.utf8"


# ---------------------------------------------------------------------------
# harness builds, locale
# ---------------------------------------------------------------------------

def _locked(name):
    lock = open(os.path.join(core.CACHE, ".lock-h-" + name), "w")
    fcntl.flock(lock, fcntl.LOCK_EX)
    return lock


def o2_harness():
    """fp_harness + the mirrored pdtoa.cxx/pstrtod.cxx compiled -O2 without sanitizer (throughput)."""
    b = core.build("asan")                      # syncs the mirror of VERIF_REPO
    d = os.path.join(b.src, "src", "dtoolbase")
    srcs = [os.path.join(core.VERIF, "harness", "fp_harness.cxx"), os.path.join(d, "pdtoa.cxx"), os.path.join(d, "pstrtod.cxx")]
    h = hashlib.sha256()
    for p in srcs + sorted(os.path.join(d, f) for f in os.listdir(d) if f.endswith((".h", ".I", ".T"))):
        h.update(open(p, "rb").read())
    digest = h.hexdigest()
    outdir = os.path.join(core.CACHE, "harness-o2")
    os.makedirs(outdir, exist_ok=True)
    out = os.path.join(outdir, "fp_harness")
    stamp = out + ".sha"
    if os.path.exists(out) and os.path.exists(stamp) and open(stamp).read() == digest:
        return out
    lock = _locked("fp_harness_o2")
    try:
        if os.path.exists(out) and os.path.exists(stamp) and open(stamp).read() == digest:
            return out
        tmp = out + ".tmp%d" % os.getpid()
        r = subprocess.run(["g++", "-O2", "-std=gnu++17", "-I" + d, "-o", tmp] + srcs,
                           stdout=subprocess.PIPE, stderr=subprocess.STDOUT, text=True)
        if r.returncode != 0:
            raise core.HarnessError("fp_harness (-O2) failed to build:\n" + r.stdout[-4000:])
        os.replace(tmp, out)
        open(stamp, "w").write(digest)
    finally:
        fcntl.flock(lock, fcntl.LOCK_UN)
        lock.close()
    return out


def asan_harness():
    return core.build_harness("fp_harness", ["fp_harness.cxx"], flavor="asan", libs=("dtoolbase",))


def comma_locale():
    """No comma-decimal locale is installed and localedef has no sources here: synthesise one from C.utf8 by
    patching the decimal point (byte 0x20) and its wide form (0x24) of LC_NUMERIC.  Returns LOCPATH."""
    root = os.path.join(core.CACHE, "locale-comma")
    dst = os.path.join(root, LOCALE_NAME)
    if os.path.exists(os.path.join(dst, ".ok")):
        return root
    lock = _locked("locale")
    try:
        if os.path.exists(os.path.join(dst, ".ok")):
            return root
        src = "/usr/lib/locale/C.utf8"
        if not os.path.isdir(src):
            raise core.HarnessError("no /usr/lib/locale/C.utf8 to derive a comma locale from")
        shutil.rmtree(dst, ignore_errors=True)
        shutil.copytree(src, dst)
        p = os.path.join(dst, "LC_NUMERIC")
        b = bytearray(open(p, "rb").read())
        if len(b) < 0x28 or b[0x20] != 0x2e or b[0x24] != 0x2e:
            raise core.HarnessError("unexpected LC_NUMERIC layout")
        b[0x20] = 0x2c
        b[0x24] = 0x2c
        open(p, "wb").write(bytes(b))
        open(os.path.join(dst, ".ok"), "w").write("ok")
    finally:
        fcntl.flock(lock, fcntl.LOCK_UN)
        lock.close()
    return root


def locale_env():
    return {"LOCPATH": comma_locale(), "LC_ALL": LOCALE_NAME, "LANG": LOCALE_NAME}


def prepare(chk):
    core.build("asan")
    core.build("standard")
    core.build("release")
    o2_harness()
    asan_harness()
    comma_locale()
    tools.idbdump_path()


# ---------------------------------------------------------------------------
# harness cases
# ---------------------------------------------------------------------------

def _run_harness(case, args, stdin=None, timeout=900):
    exe = asan_harness() if case.get("build") == "asan" else o2_harness()
    cmd = [exe]
    env = None
    if case.get("locale"):
        cmd.append("--locale")
        env = locale_env()
    r = core.run(cmd + [str(a) for a in args], timeout=timeout, env=env, input=stdin)
    return r


def _san_kind(r):
    if r.asan_report():
        return r.how()
    m = re.search(r"runtime error: (.*)", r.err)
    if m:
        msg = m.group(1)
        for needle, name in (("out of bounds", "index-out-of-bounds"), ("overflow", "overflow"), ("shift", "shift"),
                             ("null pointer", "null"), ("misaligned", "misaligned"), ("division by zero", "div-by-zero")):
            if needle in msg:
                return "ubsan:" + name
        return "ubsan:other"
    return r.how()


def _crash(res, r, case, args):
    """The harness process died.  Re-run it with FP_TRACE to learn the input being processed, confirm that this
    input alone reproduces the report, and report it keyed by sanitizer kind and frames."""
    kind = _san_kind(r)
    fr = r.frames(2)
    what = "pdtoa" if any("Grisu" in f or "DigitGen" in f or "pdtoa" in f or "Prettify" in f for f in fr) else \
        "pstrtod" if any("pstrtod" in f for f in fr) else "fp"
    witness = dict(case={k: v for k, v in case.items() if k != "id"})
    single = None
    if case["kind"] in ("fmt", "parse", "f32"):
        tf = os.path.join(core.CACHE, "fp-trace-%d" % os.getpid())
        try:
            exe = asan_harness() if case.get("build") == "asan" else o2_harness()
            env = dict(locale_env()) if case.get("locale") else {}
            env["FP_TRACE"] = tf
            core.run([exe] + (["--locale"] if case.get("locale") else []) + [str(a) for a in args], timeout=3600, env=env)
            rec = open(tf).read().split()
            if len(rec) >= 2:
                mode, inp = rec[0], rec[1]
                single = dict(kind="fmtbits" if mode == "fmtbits" else "lits", build=case.get("build"), locale=bool(case.get("locale")))
                single["bits" if mode == "fmtbits" else "literals"] = [inp]
                r1 = core.run([exe] + (["--locale"] if case.get("locale") else []) + [mode, inp], timeout=60,
                              env=locale_env() if case.get("locale") else None)
                if r1.died() or r1.rc not in (0,):
                    witness = dict(case=single, input=inp)
                    kind, fr = _san_kind(r1), (r1.frames(2) or fr)
                    r = r1
                else:
                    single = None
        except (OSError, ValueError):
            single = None
        finally:
            try:
                os.unlink(tf)
            except OSError:
                pass
    res.violation("%s-memory-error:%s%s" % (what, kind, (":" + ">".join(fr)) if fr else ""),
                  witness=witness, got=r.err[-1200:], localised=single is not None)
    res.sample = witness


def _absorb_harness(res, r, case, what, args=()):
    """Turn the harness' machine-readable report into features / counters / violations."""
    tag = ",comma" if case.get("locale") else ""
    if case.get("build") == "asan":
        tag += ",asan"
    if r.timed_out:
        res.inconclusive = "watchdog"
        return {}
    if r.rc == 3:
        raise core.HarnessError("comma locale not active in the harness: " + r.err[-300:])
    if r.rc == 2:
        raise core.HarnessError("fp_harness usage error: " + r.err[-300:])
    if r.died() or r.rc != 0:
        # a crash / sanitizer report inside pdtoa or pstrtod: find the input, confirm it alone, key by report
        _crash(res, r, case, args)
        return {}
    fails = {}
    counts = {}
    samples = []
    for line in r.out.splitlines():
        p = line.split(" ", 2)
        if p[0] == "N":
            res.count("inputs_checked", int(p[1]))
            res.count(what + "_inputs_checked", int(p[1]))
            if case.get("locale"):
                res.count("inputs_checked_under_comma_locale", int(p[1]))
        elif p[0] == "FEAT":
            res.features.add(p[1] + tag)
        elif p[0] == "FAIL":
            fails.setdefault(p[1], []).append(p[2] if len(p) > 2 else "")
        elif p[0] == "FAILCOUNT":
            counts[p[1]] = int(p[2])
        elif p[0] == "UNMINIMISED":
            res.count("failing_inputs_not_minimised", int(p[1]))
            res.count("failing_inputs", int(p[1]))
        elif p[0] == "SAMPLE":
            samples.append(line[7:])
    for key, n in counts.items():
        res.count("failing_inputs", n)
        mins = [m.group(1) for m in (re.search(r" min=(\S+)", w) for w in fails.get(key, [])) if m]
        res.violation(key, witness=[w[:400] for w in fails.get(key, [])[:3]], count=n,
                      minimal=min(mins, key=len)[:1500] if mins else None,
                      locale="comma" if case.get("locale") else "C", expected="bitwise agreement with glibc strtod (C locale)")
    res.sample = dict(case={k: v for k, v in case.items() if k != "id"}, first=samples[:3])
    return counts


def run_case(ctx, case):
    kind = case["kind"]
    if kind == "e2e":
        return run_e2e(ctx, case)
    if kind == "default-build":
        return run_default_build(ctx, case)
    res = core.CaseResult()
    if kind in ("fmt", "parse"):
        args = [kind, case["stratum"], case["seed"], case["count"]]
        r = _run_harness(case, args)
        _absorb_harness(res, r, case, "pdtoa" if kind == "fmt" else "pstrtod", args)
    elif kind == "f32":
        args = ["f32", case["lo"], case["hi"], case.get("parse_every", 0)]
        r = _run_harness(case, args, timeout=3600)
        _absorb_harness(res, r, case, "pdtoa", args)
        res.count("float32_patterns_swept", case["hi"] - case["lo"])
    elif kind == "lits":
        r = _run_harness(case, ["eval"] + list(case["literals"]))
        _absorb_harness(res, r, case, "pstrtod")
    elif kind == "fmtbits":
        r = _run_harness(case, ["fmtbits"] + list(case["bits"]))
        _absorb_harness(res, r, case, "pdtoa")
    else:
        raise core.HarnessError("unknown case kind " + str(kind))
    return res


# ---------------------------------------------------------------------------
# end-to-end
# ---------------------------------------------------------------------------

CXX = {"f": "float", "d": "double", "l": "long double"}


def gxx_values(d, header, truth):
    """The authority for literals: what g++ gives a parameter of the declared type initialised from the source
    literal, as the bits of its widening to double.  Returns {id: hex64} or None when g++ rejects the header."""
    hdr = os.path.join(d, "ref.h")
    open(hdr, "w").write(header)
    L = ['#include <cstdio>', '#include <cstring>', '#include "ref.h"',
         'static void p(const char *id, double v) { unsigned long long u; std::memcpy(&u, &v, 8); std::printf("%s %016llx\\n", id, u); }',
         'int main() {']
    for t in truth:
        L.append('  { %s x = %s%s; p("%s", (double)x); }' % (CXX[t["ptype"]], "-" if t["sign"] == "-" else "", t["text"], t["id"]))
    L.append('  return 0; }')
    src = os.path.join(d, "ref.cc")
    open(src, "w").write("\n".join(L) + "\n")
    exe = os.path.join(d, "ref")
    r = tools.gxx(["-O0", "-w", "-o", exe, src], cwd=d)
    if r.rc != 0:
        return None
    r = core.run([exe], timeout=20)
    if r.rc != 0:
        return None
    out = {}
    for line in r.out.splitlines():
        a = line.split()
        if len(a) == 2:
            out[a[0]] = a[1]
    return out


def extract_sites(truth, oc_text, db, backend):
    """-> list of (truth-entry, site, emitted-text).  Sites: proto (database prototype), oc-comment (prototype
    repeated in comments of the generated file), native-init (initialiser of the wrapper's local), manifest
    (database definition), native-manifest (string constant in the generated module)."""
    by_name = {t["name"]: t for t in truth}
    out = []
    names = "|".join(re.escape(t["name"]) for t in truth if t["kind"] == "default")
    rx = re.compile(r"\b(%s) = ([^,)]+)" % names) if names else None
    if db is not None and rx is not None:
        for f in db["functions"]:
            for m in rx.finditer(f.get("prototype", "")):
                out.append((by_name[m.group(1)], "proto", m.group(2).strip()))
    if rx is not None:
        for block in re.split(r"\n(?=static PyObject \*Dtool_|/\*\*\n)", oc_text):
            comment_defaults = []
            for line in block.splitlines():
                ls = line.strip()
                if ls.startswith("* ") or ls.startswith("// "):
                    found = [(m.group(1), m.group(2).strip()) for m in rx.finditer(ls)]
                    for n, txt in found:
                        out.append((by_name[n], "oc-comment", txt))
                    if ls.startswith("// ") and found:
                        comment_defaults = found
                        inits = []
                elif comment_defaults:
                    m = re.match(r"\s*(?:[\w:]+\s+)+param\d+ = (.+);$", line)
                    if m:
                        inits.append(m.group(1).strip())
                        if len(inits) <= len(comment_defaults):
                            n = comment_defaults[len(inits) - 1][0]
                            out.append((by_name[n], "native-init", inits[-1]))
                    elif "keyword_list" in line or "PyArg_" in line or "if (" in line:
                        comment_defaults = []
    macros = {t["name"]: t for t in truth if t["kind"] == "macro"}
    if db is not None:
        for mf in db["manifests"]:
            if mf["name"] in macros:
                out.append((macros[mf["name"]], "manifest", mf["definition"].strip()))
    for m in re.finditer(r'PyModule_AddStringConstant\(module, "(\w+)", "([^"]*)"\)', oc_text):
        if m.group(1) in macros:
            out.append((macros[m.group(1)], "native-manifest", m.group(2).strip()))
    return out


def _param_lists(text, func):
    """every parameter list that follows `func(` in text -> list of lists of parameter strings"""
    out = []
    for m in re.finditer(r"(?<![\w])%s\(" % re.escape(func), text):
        i, depth, cur, parts = m.end(), 1, "", []
        while i < len(text):
            ch = text[i]
            if ch == "(":
                depth += 1
            elif ch == ")":
                depth -= 1
                if depth == 0:
                    break
            if ch == "," and depth == 1:
                parts.append(cur.strip())
                cur = ""
            else:
                cur += ch
            i += 1
        if depth == 0:
            parts.append(cur.strip())
            out.append(parts)
    return out


def _defaults_of(parts):
    """[(position, default text)] of a parameter list"""
    out = []
    for pos, part in enumerate(parts):
        m = re.search(r"\s=\s(.+)$", part)
        if m:
            out.append((pos, m.group(1).strip()))
    return out


def extract_sites_by_func(truth, oc_text, db):
    """Like extract_sites, for headers in which parameter names repeat (colliding signatures): a site is located by
    (function name, parameter position); function names are unique in the header."""
    by = {(t["func"], t["pos"]): t for t in truth}
    funcs = sorted({t["func"] for t in truth})
    out = []
    if db is not None:
        for f in db["functions"]:
            if f["name"] in funcs:
                for parts in _param_lists(f.get("prototype", ""), f["name"]):
                    for pos, txt in _defaults_of(parts):
                        if (f["name"], pos) in by:
                            out.append((by[(f["name"], pos)], "proto", txt))
    rx = re.compile(r"(?<![\w])(%s)\(" % "|".join(re.escape(f) for f in funcs))
    pending = None
    for line in oc_text.splitlines():
        ls = line.strip()
        if ls.startswith("* ") or ls.startswith("// "):
            m = rx.search(ls)
            if m:
                fn = m.group(1)
                for parts in _param_lists(ls, fn):
                    dfl = [(pos, txt) for pos, txt in _defaults_of(parts) if (fn, pos) in by]
                    for pos, txt in dfl:
                        out.append((by[(fn, pos)], "oc-comment", txt))
                    if ls.startswith("// "):
                        pending = [fn, [pos for pos, _ in _defaults_of(parts)], 0]
            continue
        if pending is not None:
            m = re.match(r"\s*(?:[\w:]+\s+)+param\d+ = (.+);$", line)
            if m:
                fn, poss, k = pending
                if k < len(poss) and (fn, poss[k]) in by:
                    out.append((by[(fn, poss[k])], "native-init", m.group(1).strip()))
                pending[2] += 1
            elif "keyword_list" in line or "PyArg_" in line or "if (" in line:
                pending = None
    return out


def judge_header(d, header, truth, backend, locale, flavor="asan"):
    """Runs interrogate on the header and judges every literal site.
    -> (why_inconclusive or None, [dict(t, site, emitted, status, want, got, err, cause)])"""
    b = core.build(flavor)
    os.makedirs(d, exist_ok=True)
    hdr = os.path.join(d, "lib.h")
    open(hdr, "w").write(header)
    env = locale_env() if locale else None
    r, paths = tools.interrogate(b, [hdr], d, opts=[backend, "-fnames", "-promiscuous"], env=env)
    if r.timed_out:
        return "watchdog", []
    if r.rc != 0 or r.died():
        fr = r.frames(3)
        if (r.died() or "runtime error:" in r.err) and any(
                ("Grisu" in f or "DigitGen" in f or "pdtoa" in f or "Prettify" in f or "pstrtod" in f) for f in fr):
            # the tool died inside the number formatter/parser while processing a header g++ accepts
            return None, [dict(crash=True, kind=_san_kind(r), frames=fr, err=r.err[-1200:])]
        if r.died():
            # abort / assertion / signal / sanitizer report on a header that g++ accepts and that consists of nothing
            # but declarations with floating default arguments
            m = re.search(r"Assertion `([^']*)' failed", r.err)
            return None, [dict(crash=True, generic=True, kind=_san_kind(r), frames=fr, err=r.err[-1500:],
                               assertion=m.group(1)[:120] if m else None)]
        return "interrogate did not accept the header (%s)" % r.how(), []
    try:
        oc_text = open(paths["oc"], errors="replace").read()
    except OSError:
        return "no -oc output", []
    rr, db = tools.idbdump([paths["od"]])
    if db is None:
        return "idbdump failed", []
    if truth and "pos" in truth[0]:
        sites = extract_sites_by_func(truth, oc_text, db)
    else:
        sites = extract_sites(truth, oc_text, db, backend)
    lines = []
    recs = []
    for i, (t, site, emitted) in enumerate(sites):
        em = emitted
        suffix = t["suffix"]
        rec = dict(t=t, site=site, emitted=emitted)
        if site in ("manifest", "native-manifest"):
            # a macro definition keeps its spelling; the compiler reads it as written
            m = re.fullmatch(r"([0-9.eE+\-']+?)([fFlL]?)", emitted)
            if not m:
                rec.update(status="unparsable", want="0", got="0", err="gross", cause="other")
                recs.append(rec)
                continue
            em = m.group(1).replace("'", "")
            esuf = (m.group(2) or "-").lower()
            if esuf != suffix:
                rec.update(status="bad", want="0", got="0", err="gross", cause="other", note="suffix changed")
                recs.append(rec)
                continue
            if em == t["digits"]:
                # verbatim: the compiler reads the very same spelling
                rec.update(status="ok", want="0", got="0", err="none", cause="none")
                recs.append(rec)
                continue
            # same suffix, different spelling: compare as the type the suffix denotes
            lines.append("%d\t%s\t%s\t%s\t%s\t%s" % (len(recs), t["digits"], suffix, "f" if suffix == "f" else "d", "+", em))
            recs.append(rec)
            continue
        if "\t" in em or not em:
            rec.update(status="unparsable", want="0", got="0", err="gross", cause="other")
            recs.append(rec)
            continue
        lines.append("%d\t%s\t%s\t%s\t%s\t%s" % (len(recs), t["digits"], suffix, t["ptype"], t["sign"], em))
        recs.append(rec)
    if lines:
        case = {"locale": locale}
        rh = _run_harness(case, ["lit"], stdin=("\n".join(lines) + "\n").encode())
        if rh.rc == 3:
            raise core.HarnessError("comma locale not active in the harness")
        if rh.rc != 0 or rh.died():
            raise core.HarnessError("fp_harness lit failed: " + rh.how() + rh.err[-300:])
        for line in rh.out.splitlines():
            p = line.split()
            if p and p[0] == "LIT":
                kv = dict(x.split("=", 1) for x in p[3:])
                recs[int(p[1])].update(status=p[2], want=kv["want"], got=kv["got"], err=kv["err"], cause=kv["cause"])
    for rec in recs:
        if "status" not in rec:
            raise core.HarnessError("no verdict for a literal site")
    return None, recs


def _variant_header(t):
    if t["kind"] == "macro":
        return "#define %s %s\n" % (t["name"], t["text"])
    return "void fpmin_f(%s %s = %s%s);\n" % (CXX[t["ptype"]], t["name"], "-" if t["sign"] == "-" else "", t["text"])


def minimise_e2e(d, t, site, backend, locale, flavor="asan"):
    """Greedy reduction of a failing literal whose failure is not explained by pstrtod: drop digit separators, the
    sign, the suffix, make the parameter a double -- keep a step when the same site still fails."""
    def fails(c):
        c = {k: v for k, v in c.items() if k != "pos"}          # isolated: located by its (unique) name
        why, recs = judge_header(os.path.join(d, "min"), _variant_header(c), [c], backend, locale, flavor)
        if why:
            return None
        for rec in recs:
            if rec["site"] == site and rec["status"] in ("bad", "unparsable") and rec["cause"] != "pstrtod":
                return rec
        return None
    cur = dict(t)
    last = fails(cur)
    if last is None:
        return t, None            # does not reproduce in isolation: keep the original
    steps = []
    if cur["sep"]:
        c = dict(cur); c["text"] = c["text"].replace("'", ""); c["sep"] = False; steps.append(c)
    for c in steps:
        rec = fails(c)
        if rec:
            cur, last = c, rec
    if cur["sign"] == "-":
        c = dict(cur); c["sign"] = "+"
        rec = fails(c)
        if rec:
            cur, last = c, rec
    if cur["suffix"] != "-":
        c = dict(cur); c["text"] = c["text"][:-1]; c["suffix"] = "-"
        rec = fails(c)
        if rec:
            cur, last = c, rec
    if cur["ptype"] != "d" and cur["kind"] == "default":
        c = dict(cur); c["ptype"] = "d"
        rec = fails(c)
        if rec:
            cur, last = c, rec
    return cur, last


SITE_CLASS = {"proto": "proto", "oc-comment": "proto", "native-init": "native-init", "manifest": "manifest",
              "native-manifest": "manifest"}


def run_e2e(ctx, case):
    res = core.CaseResult()
    d = ctx.casedir(case["id"])
    header, truth, backend, locale = case["header"], case["truth"], case["backend"], bool(case.get("locale"))
    ref = gxx_values(d, header, truth)
    if ref is None:
        res.inconclusive = "rejected_by_reference (g++)"
        return res
    flavor = case.get("flavor", "asan")
    ftag = "" if flavor == "asan" else ":" + flavor
    why, recs = judge_header(d, header, truth, backend, locale, flavor)
    if why:
        res.inconclusive = why
        return res
    seen_default = set()
    min_cache = {}
    reported = set()
    shown = []
    if recs and recs[0].get("crash") and recs[0].get("generic"):
        c = recs[0]
        what = "assert" if c.get("assertion") else c["kind"]
        res.violation("e2e-crash:%s:%s" % (what, ">".join(c["frames"][:3]) or "no-frames"),
                      witness=dict(header=header, backend=backend, flavor=flavor, assertion=c.get("assertion")),
                      expected="the tool processes a header of declarations with floating default arguments", got=c["err"])
        res.features.add("e2e-crash-observed")
        res.sample = dict(kind="e2e", backend=backend, flavor=flavor, crashed=True)
        return res
    if recs and recs[0].get("crash"):
        c = recs[0]
        res.violation("pdtoa-memory-error:%s:%s" % (c["kind"], ">".join(c["frames"][:2])),
                      witness=dict(header=header, backend=backend), got=c["err"], localised=False)
        return res
    for rec in recs:
        t = rec["t"]
        res.count("literal_sites_compared")
        seen_default.add(t["id"])
        sc = SITE_CLASS[rec["site"]]
        # the harness' "want" must be what g++ computes for this literal (manifests are compared as doubles/floats
        # of the suffix type, g++'s number is for the declared macro type: same thing in the generator)
        if rec["want"] not in ("0",) and ref.get(t["id"]) not in (None, rec["want"]):
            if rec["status"] == "ambiguous" or t["suffix"] == "l":
                res.count("literals_ambiguous_long_double_rounding")
            else:
                res.count("literals_references_disagree")
            continue
        if rec["status"] == "ambiguous":
            res.count("literals_ambiguous_long_double_rounding")
            continue
        feat = "e2e:%s:%s:%s:suffix=%s:ptype=%s:%s%s%s" % (backend, sc, t["cls"], t["suffix"], t["ptype"],
                                                          "sep" if t["sep"] else "nosep", ":comma" if locale else "", ftag)
        res.features.add(feat)
        if len(shown) < 3:
            shown.append(dict(literal=t["text"], param=CXX[t["ptype"]], site=rec["site"], emitted=rec["emitted"], verdict=rec["status"]))
        if rec["status"] == "ok":
            res.count("literal_sites_ok")
            continue
        res.count("literal_sites_bad")
        if rec["cause"] == "pstrtod":
            key = "e2e-literal-value:cause=pstrtod,err=%s" % rec["err"]
            if key not in reported:
                reported.add(key)
                res.violation(key, witness=dict(literal=t["text"], param=CXX[t["ptype"]], site=rec["site"], emitted=rec["emitted"],
                                                backend=backend), expected=rec["want"], got=rec["got"])
            continue
        ck = (t["id"], sc)
        if ck not in min_cache:
            if len(min_cache) >= 8:
                res.count("failures_not_minimised")
                continue
            mt, m2 = minimise_e2e(d, t, rec["site"], backend, locale, flavor)
            min_cache[ck] = (mt, m2 if m2 is not None else rec, m2 is not None)
        mt, mrec, isolated = min_cache[ck]
        key = "e2e-literal-value:cause=other,site=%s,suffix=%s,ptype=%s,sep=%s,%s" % (
            sc, mt["suffix"], mt["ptype"], "y" if mt["sep"] else "n",
            "unparsable" if mrec["status"] == "unparsable" else "value")
        if not isolated and "group" in t:
            # right when alone, wrong next to its siblings: did it take the default of a function with the same type?
            sib = [o for o in recs if o["t"].get("group") == t["group"] and o["t"]["id"] != t["id"] and
                   o["t"]["pos"] == t["pos"] and o.get("want") == rec["got"]]
            key = "e2e-literal-value:cause=%s,site=%s,relation=%s" % (
                "default-of-sibling-signature" if sib else "context", sc, t["cls"])
        if key not in reported:
            reported.add(key)
            res.violation(key, witness=dict(literal=mt["text"], param=CXX[mt["ptype"]], sign=mt["sign"], site=rec["site"],
                                            emitted=mrec["emitted"], backend=backend, original=t["text"]),
                          expected=mrec["want"], got=mrec["got"])
    missing = [t["id"] for t in truth if t["id"] not in seen_default]
    res.count("literals_without_site", len(missing))
    res.sample = dict(kind="e2e", backend=backend, locale="comma" if locale else "C", literals=len(truth), sites=len(recs), first=shown)
    if len(missing) > len(truth) // 2:
        res.inconclusive = "most literals not found in the outputs"
    return res


# ---------------------------------------------------------------------------
# workload
# ---------------------------------------------------------------------------

SUBNORMALS = ["4.9e-324", "1e-310", "2.225073858507201e-308", "1.5e-315", "3e-320", "2.2250738585072014e-308",
              "1e-300", "6.5e-311"]


def run_default_build(ctx, case):
    """End to end on the repository's OWN default configuration (Standard: -O3 -ffast-math ...).  The sanitizer
    flavours are Debug builds, so an effect of the default flags on the tools' arithmetic (flush-to-zero of
    subnormals through crtfastmath) is only observable here."""
    res = core.CaseResult()
    b = core.build("standard")
    d = ctx.casedir(case["id"])
    lits = case["literals"]
    lines = []
    for i, l in enumerate(lits):
        lines.append("#define FPM_%d %s" % (i, l))
        lines.append("void fpf_%d(double d = %s);" % (i, l))
    hdr = os.path.join(d, "lib.h")
    open(hdr, "w").write("\n".join(lines) + "\n")
    r, paths = tools.interrogate(b, [hdr], d, opts=["-c", "-fnames", "-promiscuous"])
    if r.rc != 0 or r.died() or r.timed_out:
        res.inconclusive = "interrogate (standard flavour) failed: " + r.how()
        return res
    r2, dump = tools.idbdump([paths["od"]])
    if dump is None:
        res.inconclusive = "database unreadable"
        return res
    import re as _re
    seen = set()
    for m in dump["manifests"]:
        mm = _re.match(r"FPM_(\d+)$", m["name"])
        if mm:
            i = int(mm.group(1))
            res.count("literal_sites_compared")
            res.features.add("default-build:manifest:" + ("subnormal" if float(lits[i]) < 2.2250738585072014e-308 else "normal"))
            try:
                got = float(m["definition"].strip().rstrip("fFlL"))
            except ValueError:
                continue
            if got != float(lits[i]) and ("manifest", i) not in seen:
                seen.add(("manifest", i))
                res.violation("e2e-literal-value:cause=default-build-flags,site=manifest," +
                              ("subnormal->zero" if got == 0.0 else "other"), literal=lits[i], emitted=m["definition"])
    for f in dump["functions"]:
        mm = _re.match(r"fpf_(\d+)$", f["name"])
        if mm:
            i = int(mm.group(1))
            pm = _re.search(r"=\s*([^);]+)\)", f["prototype"])
            if not pm:
                continue
            res.count("literal_sites_compared")
            res.features.add("default-build:proto:" + ("subnormal" if float(lits[i]) < 2.2250738585072014e-308 else "normal"))
            try:
                got = float(pm.group(1).strip().rstrip("fFlL"))
            except ValueError:
                continue
            if got != float(lits[i]):
                res.violation("e2e-literal-value:cause=default-build-flags,site=proto," +
                              ("subnormal->zero" if got == 0.0 else "other"), literal=lits[i], emitted=pm.group(1))
    # one report per key
    uniq = {}
    for k, dd in res.violations:
        uniq.setdefault(k, dd)
    res.violations = list(uniq.items())
    res.sample = dict(kind="default-build", literals=lits[:4])
    return res


def main(chk):
    chk.rule = ("harness cases: one fp_harness invocation over one (monitor, stratum, sub-seed, count, locale) -- inputs are "
                "drawn by the harness' splitmix64 generator from the sub-seed; a feature signature is "
                "monitor:stratum:output-format-or-literal-form:value-class:digit-class(:comma) counted by the harness from "
                "the inputs it actually checked.  e2e cases: one generated header (floating default arguments and float "
                "macros) through one back-end; a signature is back-end:site:literal-class:suffix:parameter-type:separator"
                "(:comma) for every literal site whose emitted text was found and compared")
    chk.assumptions = [
        "glibc strtod/strtof/strtold (through the *_l variants with an explicit C locale) are correctly rounded",
        "g++ 12 assigns the correctly rounded value to a literal; checked per e2e case by compiling the header and "
        "comparing g++'s value of every literal with glibc's (disagreement => that literal is inconclusive)",
        "the synthesised locale (C.utf8 with LC_NUMERIC's decimal point patched to ',') stands for real comma-decimal "
        "locales; the harness verifies printf and strtod follow it before it sweeps",
    ]
    rng = random.Random(chk.rng.getrandbits(64))
    q = chk.quick()
    cases = []

    def sub():
        return rng.getrandbits(31)

    def add(kind, stratum, n_cases, count, locale_cases=0, build=None):
        for i in range(n_cases + locale_cases):
            c = dict(kind=kind, stratum=stratum, seed=sub(), count=count, locale=(i >= n_cases))
            if build:
                c["build"] = build
            cases.append(c)

    # formatter: quick ~6 M inputs, thorough ~170 M + every float32
    m = 2 if q else 60
    add("fmt", "expo", 8, 100000 * m, locale_cases=4)
    add("fmt", "subnormal", 2, 50000 * m, locale_cases=0 if q else 1)
    add("fmt", "pow", 1, 0, locale_cases=1)
    add("fmt", "int53", 2, 100000 * m)
    add("fmt", "short", 3, 100000 * m, locale_cases=1)
    add("fmt", "f32", 3, 100000 * (1 if q else 10))
    # memory errors in pdtoa/pstrtod: ASan build on a sample
    add("fmt", "expo", 1, 100000 if q else 600000, build="asan")
    add("fmt", "short", 1, 50000 if q else 200000, build="asan")
    add("parse", "pdtoa", 1, 30000 if q else 200000, build="asan")
    add("parse", "vlong", 1, 5000 if q else 50000, build="asan")
    # parser: quick ~660 k spellings, thorough ~23 M
    m = 2 if q else 60
    add("parse", "short", 3, 20000 * m, locale_cases=1)
    add("parse", "exp", 3, 20000 * m, locale_cases=1)
    add("parse", "long", 2, 20000 * m)
    add("parse", "vlong", 2, 15000 * m, locale_cases=0 if q else 1)
    add("parse", "zeros", 2, 15000 * m)
    add("parse", "halfway", 2, 5000 * (1 if q else 20), locale_cases=0 if q else 1)
    add("parse", "pdtoa", 2, 20000 * m, locale_cases=1)
    add("parse", "g17", 2, 15000 * m)
    add("parse", "range", 1, 10000 * m, locale_cases=1)
    if not q:
        # every float32 bit pattern, widened: 256 slices of 2^24
        for i in range(256):
            cases.append(dict(kind="f32", lo=i << 24, hi=(i + 1) << 24, parse_every=16, locale=(i % 16 == 7)))
    # end to end
    n_e2e = chk.pick(32, 150)
    backends = ["-python-native", "-python-native", "-c", "-python"]
    for i in range(n_e2e):
        hrng = random.Random(rng.getrandbits(64))
        header, truth = fpgen.header(hrng, n_funcs=hrng.randint(4, 10), tag="fp", odd_suffix=(i % 6 == 5))
        cases.append(dict(kind="e2e", header=header, truth=truth, backend=backends[i % len(backends)], locale=(i % 3 == 2)))
    for i in range(chk.pick(2, 8)):
        hrng = random.Random(rng.getrandbits(64))
        lits = hrng.sample(SUBNORMALS, 5) + ["0.1", "1e300", "%.17g" % hrng.uniform(1e-3, 1e3)]
        cases.append(dict(kind="default-build", fn="run_default_build", literals=lits))
    # colliding signatures: in ONE header several functions/methods with identical return type, parameter names and
    # types whose floating defaults are near-collisions (powers of two apart, +-0, same value spelled differently,
    # suffix forms, adjacent doubles, ...).  Every header is seen by the sanitizer flavour (asserts on: a tripped
    # consistency assertion is an e2e-crash) and by an NDEBUG release build (where the wrong value comes out silently);
    # every other one also by the repository's default configuration.
    for i in range(chk.pick(6, 30)):
        hrng = random.Random(rng.getrandbits(64))
        header, truth = fpgen.collide_header(hrng, tag="fpc", n_groups=hrng.randint(4, 7))
        be = backends[i % len(backends)]
        cases.append(dict(kind="e2e", header=header, truth=truth, backend=be, locale=False, flavor="asan"))
        cases.append(dict(kind="e2e", header=header, truth=truth, backend="-python-native" if i % 2 == 0 else be,
                          locale=(i % 3 == 1), flavor="release"))
        if i % 2 == 0:
            cases.append(dict(kind="e2e", header=header, truth=truth, backend=be, locale=False, flavor="standard"))
    for i, c in enumerate(cases):
        c["id"] = "k%d" % i
    # long-running slices first
    cases.sort(key=lambda c: 0 if c["kind"] == "f32" else 1)
    chk.run_cases(__name__, cases)
    if not q:
        swept = chk.counters.get("float32_patterns_swept", 0)
        chk.extra["float32_exhaustive"] = (swept == 1 << 32)
        chk.extra["float32_patterns_swept"] = swept
    chk.extra["inputs_checked"] = chk.counters.get("inputs_checked", 0)
    chk.min_conclusive = 20
