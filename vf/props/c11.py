"""C11 — database and generated code agree; the database is referentially closed.

Workload: libgen libraries (incl. declarations that provoke remove_type and forward declarations) x back-ends x
naming options.  Monitors:
 (1) closure/consistency invariants over the database — on the raw .in file through the independent reader
     vf/idb.py (dangling indices are visible there before the library replaces them by bogus records) and on the
     loaded database through the query interface (idbdump);
 (2) signature agreement: for every -c wrapper, `extern "C" RET name(P...)` synthesised from the database's type
     true-names is compiled in one TU after #include-ing the -oc file; C linkage forbids overloading, so any
     mismatch between recorded and emitted signature is a "conflicting declaration" error.
"""
import os
import random
import re
import shutil

from vf import core, tools, genbuild, libbuild
from vf.gen import libgen

LEVEL = "translation_validation"

CONFIGS = [
    ["-c", "-fnames"], ["-c", "-fnames", "-string"], ["-python", "-true-names"],
    ["-c", "-fnames", "-unique-names", "-string"], ["-c", "-fnames", "-promiscuous", "-string"],
    ["-python", "-fnames"], ["-python", "-fnames", "-unique-names"],
    ["-python-native", "-string"], ["-python-native", "-string", "-unique-names"],
    ["-c", "-python-native", "-fnames", "-string"],
]


def bogus(rec):
    return not (rec.get("name") or rec.get("true_name") or rec.get("scoped_name") or rec.get("seq_name"))


def check_loaded(res, dump, cfg):
    db = tools.Db(dump)
    T, F, W, E, S, M = db.types, db.functions, db.wrappers, db.elements, db.make_seqs, db.manifests
    listed_types = set(dump["all_types"])
    listed_funcs = set(dump["all_functions"])
    n = 0

    def ref(kind, idx, table, where, allow0=False, listed=None):
        nonlocal n
        n += 1
        if idx == 0 and allow0:
            return None
        rec = table.get(idx)
        if rec is None or (rec.get("function") == 0 if kind == "wrapper" else bogus(rec)):
            res.violation(f"dangling-index:{where}->{kind}", index=idx)
            return None
        if listed is not None and idx not in listed:
            res.violation(f"unlisted-index:{where}->{kind}", index=idx)
        return rec

    # wrappers occupy 1..n
    if W and sorted(W) != list(range(1, len(W) + 1)):
        res.violation("wrapper-indices-not-1..n", got=sorted(W)[:10], n=len(W))
    uniq = {}
    for wi, w in W.items():
        f = ref("function", w["function"], F, "wrapper.function")
        if f is not None and wi not in f["c_wrappers"] + f["python_wrappers"]:
            res.violation("backlink:wrapper.function-does-not-list-wrapper", wrapper=wi, function=w["function"])
        if w["has_return_value"]:
            ref("type", w["return_type"], T, "wrapper.return_type", listed=listed_types)
        ref("function", w["return_value_destructor"], F, "wrapper.return_value_destructor", allow0=True)
        for p in w["params"]:
            ref("type", p["type"], T, "wrapper.param.type", listed=listed_types)
        if w["unique_name"]:
            if w["unique_name"] in uniq:
                res.violation("duplicate-unique-name", name=w["unique_name"])
            uniq[w["unique_name"]] = wi
    for fi, f in F.items():
        if f["is_method"]:
            t = ref("type", f["class"], T, "function.class", listed=listed_types)
        for wi in f["c_wrappers"] + f["python_wrappers"]:
            w = ref("wrapper", wi, W, "function.wrappers")
            if w is not None and w["function"] != fi:
                res.violation("backlink:function.wrapper-names-other-function", function=fi, wrapper=wi)
        if fi not in listed_funcs:
            res.violation("unlisted-index:reachable->function", index=fi, name=f["scoped_name"])
    for ti, t in T.items():
        if t["is_nested"]:
            o = ref("type", t["outer_class"], T, "type.outer_class", listed=listed_types)
            if o is not None and ti not in o["nested_types"]:
                res.violation("backlink:outer_class-does-not-list-nested:" + ("typedef" if t["is_typedef"] else kind_of(db, ti)),
                              type=t["scoped_name"])
        if t["is_wrapped"] or t["is_typedef"] or t["is_array"]:
            ref("type", t["wrapped_type"], T, "type.wrapped_type", listed=listed_types)
        for k in ("constructors", "methods", "casts"):
            for fi in t[k]:
                f = ref("function", fi, F, "type." + k, listed=listed_funcs)
                if f is not None and k != "casts" and f["class"] != ti:
                    res.violation(f"backlink:type.{k}-function-has-other-class", type=t["scoped_name"], function=f["scoped_name"])
        if t["has_destructor"]:
            ref("function", t["destructor"], F, "type.destructor", listed=listed_funcs)
        for ei in t["elements"]:
            ref("element", ei, E, "type.elements")
        enames = [E[ei]["scoped_name"] for ei in t["elements"] if ei in E]
        if len(set(enames)) != len(enames):
            res.violation("duplicate-element-in-type:" + ("nested" if t["is_nested"] else "toplevel"), type=t["scoped_name"],
                          names=sorted(n for n in set(enames) if enames.count(n) > 1)[:3])
        for si in t["make_seqs"]:
            ref("make_seq", si, S, "type.make_seqs")
        for ni in t["nested_types"]:
            nt = ref("type", ni, T, "type.nested_types", listed=listed_types)
            if nt is not None and nt["outer_class"] != ti:
                res.violation("backlink:nested-type-names-other-outer", type=t["scoped_name"])
        for d in t["derivations"]:
            ref("type", d["base"], T, "type.derivation.base", listed=listed_types)
            if d["has_upcast"]:
                ref("function", d["upcast"], F, "type.derivation.upcast")
            if d["has_downcast"]:
                ref("function", d["downcast"], F, "type.derivation.downcast")
    for ei, e in E.items():
        ref("type", e["type"], T, "element.type", listed=listed_types)
        for k in ("getter", "setter", "has_function", "clear_function", "del_function", "insert_function",
                  "getkey_function"):
            if e["has_" + k if not k.startswith("has_") else "has_has_function"]:
                ref("function", e[k], F, "element." + k)
        ref("function", e["length_function"], F, "element.length_function", allow0=True)
    for si, s in S.items():
        ref("function", s["num_getter"], F, "make_seq.num_getter")
        ref("function", s["element_getter"], F, "make_seq.element_getter")
    for mi, m in M.items():
        if m["has_type"]:
            ref("type", m["type"], T, "manifest.type", listed=listed_types)
        if m["has_getter"]:
            ref("function", m["getter"], F, "manifest.getter")
    for key, table, kind in (("all_types", T, "type"), ("global_types", T, "type"), ("all_functions", F, "function"),
                             ("global_functions", F, "function"), ("globals", E, "element"),
                             ("manifest_list", M, "manifest")):
        for idx in dump[key]:
            ref(kind, idx, table, "enumeration." + key)
        if len(set(dump[key])) != len(dump[key]):
            res.violation("duplicate-in-enumeration:" + key)
    res.count("index_fields_checked", n)
    return db


def check_raw(res, path):
    """closure of the raw file through the independent reader (if available)"""
    try:
        from vf import idb
    except ImportError:
        return
    if not hasattr(idb, "parse") or not hasattr(idb, "check_closure"):
        return
    try:
        raw = idb.parse(open(path, "rb").read())
    except Exception as ex:  # the independent reader is not the subject here
        res.count("raw_reader_failed")
        return
    n, problems = idb.check_closure(raw)
    res.count("raw_index_fields_checked", n)
    for p in problems:
        res.violation("raw:" + p["key"], **{k: v for k, v in p.items() if k != "key"})


def ctype_of(db, idx):
    t = db.types[idx]
    if t["is_atomic"] and t["atomic_token"] == 7:
        return "char const *"
    return t["true_name"]


def check_signatures(res, b, d, db, oc, cfg):
    """extern "C" redeclarations synthesised from the database must agree with the definitions in the -oc file"""
    lines = ['#include "%s"' % os.path.basename(oc), "template<class T> struct vf_id { typedef T type; };"]
    names = []
    for wi, w in sorted(db.wrappers.items()):
        if not w["name"] or not w["name"].startswith("_inC"):
            continue
        rt = ctype_of(db, w["return_type"]) if w["has_return_value"] else "void"
        ps = ", ".join(f"vf_id<{ctype_of(db, p['type'])} >::type" for p in w["params"])
        lines.append(f'extern "C" vf_id<{rt} >::type {w["name"]}({ps}); // wrapper {wi}')
        lines.append(f"static void *vf_use_{wi} = (void *)&{w['name']};")
        names.append(w["name"])
    if not names:
        return
    src = os.path.join(d, "sigcheck.cxx")
    open(src, "w").write("\n".join(lines) + "\n")
    r = genbuild.syntax_only(b, src, dirs=libbuild.dirs_for(d), python="-python" in cfg or "-python-native" in cfg)
    res.count("c_signatures_compared", len(names))
    if r.rc != 0:
        bad = set()
        for m in re.finditer(r"sigcheck\.cxx:(\d+):\d+: error: (.*)", r.err):
            ln = int(m.group(1))
            msg = m.group(2)
            decl = lines[ln - 1] if ln - 1 < len(lines) else ""
            mm = re.search(r"// wrapper (\d+)", decl)
            cls = re.sub(r"[‘'][^’']*[’']", "'X'", msg)
            cls = re.sub(r"\d+", "N", cls)[:70]
            if mm:
                w = db.wrappers[int(mm.group(1))]
                kinds = ",".join(sorted({"ret:" + kind_of(db, w["return_type"])} | {kind_of(db, p["type"]) for p in w["params"]}))
                bad.add((cls, kinds, decl))
            elif "error" in m.group(0):
                bad.add((cls, "?", decl))
        for cls, kinds, decl in sorted(bad)[:5]:
            res.violation(f"signature-mismatch:{cls}:{kinds}", decl=decl, err=r.err[:800])
        if not bad:
            # errors inside the -oc file itself are C03's subject (the file does not compile at all)
            res.count("oc_file_does_not_compile")


def kind_of(db, idx):
    t = db.types.get(idx)
    if t is None:
        return "?"
    if t["is_atomic"]:
        return "atomic" + str(t["atomic_token"])
    if t["is_enum"]:
        return "enum"
    if t["is_pointer"]:
        return "ptr"
    if t["is_array"]:
        return "array"
    if t["is_wrapped"]:
        return "wrapped"
    return "class"


def check_defined(res, oc_text, db, cfg):
    """every wrapper with a name has a definition of exactly that name in the -oc file"""
    for wi, w in db.wrappers.items():
        if w["name"]:
            res.count("wrapper_definitions_looked_up")
            if not re.search(r"^" + re.escape(w["name"]) + r"\s*\(", oc_text, re.M):
                res.violation("wrapper-not-defined:" + ("c" if w["name"].startswith("_inC") else "python"), name=w["name"])


def run_case(ctx, case):
    res = core.CaseResult()
    b = core.build("asan")
    d = ctx.casedir(case["id"])
    if case.get("files"):
        libgen.write_files(d, case["files"])
    else:
        if case.get("collide"):
            from vf.gen import collide
            collide.generate(random.Random(case["libseed"]), "liba", case["collide"]).write(d)
        elif case.get("adv"):
            from vf.gen import advgen
            # no writable char buffers here: the database calls both `char *` and `char const *` an atomic string, so the
            # redeclaration oracle (which spells it `char const *`) cannot judge them
            advgen.generate(random.Random(case["libseed"]), "liba", char_buffers=False).write(d)
        else:
            libgen.generate(random.Random(case["libseed"]), "liba", size=case.get("size", 1.0), oddities=True,
                            ext=True).write(d)
    cfg = case["cfg"]
    r, p = libbuild.igate(b, d, "liba", cfg)
    res.count("programs")
    if r.rc != 0 or r.died():
        res.inconclusive = "interrogate did not succeed: " + r.how()
        shutil.rmtree(d, ignore_errors=True)
        return res
    nviol = 0
    r2, dump = tools.idbdump([p["od"]])
    if dump is None or dump["error_flag"]:
        res.violation("database-unreadable:" + r2.how(), err=r2.err[-500:])
    else:
        db = check_loaded(res, dump, cfg)
        check_raw(res, p["od"])
        oc_text = open(p["oc"], errors="replace").read()
        if "-fnames" in cfg:
            check_defined(res, oc_text, db, cfg)
        if "-c" in cfg and "-fnames" in cfg:
            check_signatures(res, b, d, db, p["oc"], cfg)
        res.features.add(" ".join(cfg))
        res.sample = dict(cfg=cfg, libseed=case.get("libseed"), wrappers=len(db.wrappers), types=len(db.types),
                          functions=len(db.functions))
    if res.violations:
        rc = dict(id=case["id"], cfg=cfg, files=libgen.read_files(d))
        res.violations = [(k, dict(dd, replay_case=rc)) for k, dd in res.violations]
    shutil.rmtree(d, ignore_errors=True)
    return res


def main(chk):
    chk.rule = ("case = (libgen library incl. unsupported/forward-declared types, back-end/naming config); every index "
                "field of every record checked for existence, kind, listing and back-links (raw file via independent "
                "reader when available + loaded database); every -c wrapper re-declared extern \"C\" from database types "
                "and compiled against the -oc file; distinct = configs that produced a database")
    chk.assumptions = ["g++ rejects a conflicting extern \"C\" redeclaration iff return/parameter types differ",
                       "the loaded view cannot see dangling indices the library maps to bogus records except as records with empty names"]
    rng = chk.rng
    cases = []
    cid = 0
    for i in range(chk.pick(50, 300)):
        libseed = rng.randrange(1 << 30)
        for cfg in (CONFIGS if not chk.quick() else rng.sample(CONFIGS, 5)):
            cid += 1
            cases.append(dict(id=cid, libseed=libseed, cfg=cfg, size=0.8))
    # signatures whose 24-bit hashes collide (the name of an already recorded wrapper must not change)
    for i in range(chk.pick(30, 200)):
        cid += 1
        cases.append(dict(id=cid, libseed=rng.randrange(1 << 30), collide=rng.choice([2, 3, 4, 6]),
                          cfg=rng.choice([["-c", "-fnames"], ["-c", "-python", "-fnames"], ["-python", "-fnames"],
                                          ["-c", "-fnames", "-unique-names"]])))
    # hand-shaped adversarial libraries (keyword names, char buffers, abstract hierarchies whose derived classes only
    # hide a pure virtual): the closure rules are the same
    for i in range(chk.pick(24, 80)):
        cid += 1
        cases.append(dict(id=cid, libseed=rng.randrange(1 << 30), adv=True, cfg=rng.choice(CONFIGS)))
    chk.run_cases(__name__, cases)
