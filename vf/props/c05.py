"""C05 — the database describes every exported entity truthfully.

Workload: libgen libraries with doc comments.  Oracle: the generator's ground-truth model compared entity by entity
(keyed by scoped name, never by index or order) with the database read through the query interface.
Three-valued: only facts the statement classifies are judged (names, kinds, bases, nesting, roles, per-variant
ordered parameter names/types, optional/this flags, return type, caller-owns, comment attachment).
"""
import os
import random
import re
import shutil

from vf import core, tools, libbuild
from vf.gen import libgen

LEVEL = "exploration"

CANON = {"char": "char", "signed char": "signed char", "unsigned char": "unsigned char", "short": "short int",
         "unsigned short": "unsigned short int", "int": "int", "unsigned int": "unsigned int", "long": "long int",
         "unsigned long": "unsigned long int", "long long": "long long int",
         "unsigned long long": "unsigned long long int", "float": "float", "double": "double"}

CONFIGS = {"c": ["-c", "-fnames", "-string"], "native": ["-python-native", "-string"]}


def expect_type(t, role):
    """set of acceptable database true-names for a model type in role 'param' / 'ret' (documented remap rules)"""
    k = t["k"]
    if k == "void":
        return {"void"}
    if k == "bool":
        return {"bool"}
    if k in ("int", "float"):
        return {CANON[t["c"]]}
    if k == "enum":
        return {t["name"]}
    if k in ("cstr", "string"):
        return {"atomic string"}
    if k == "obj":
        q = t["cls"]
        m = t["mode"]
        if m in ("ptr", "ref"):
            return {q + " *"}
        if m in ("cptr", "cref"):
            return {q + " const *"}
        if role == "param":
            return {q + " *", q + " const *"}     # concrete -> pointer; constness of the temporary not classified
        return {q + " *"}
    raise ValueError(k)


def tkind(t):
    return t["k"] + (":" + t.get("mode", "") if t["k"] == "obj" else "") + (":" + t["c"] if t["k"] in ("int", "float") else "")


def variants(fn):
    """(params-kept, n_omitted) for every omitted-trailing-default variant"""
    ps = fn["params"]
    nd = 0
    for p in reversed(ps):
        if p["default"] is None:
            break
        nd += 1
    return [(ps[:len(ps) - k], k) for k in range(nd + 1)]


class Cmp:
    def __init__(self, res, db, model, cfgname):
        self.res, self.db, self.m, self.cfg = res, db, model, cfgname
        self.docs = {}     # doc id -> entity key that owns it
        self.prop_getters = {}

    def bad(self, key, **kw):
        self.res.violation(key, cfg=self.cfg, **kw)

    def fact(self, n=1):
        self.res.count("facts_compared", n)

    # ---- comments
    def want_comment(self, doc, owner_key, comment, what):
        if doc is None:
            return
        self.docs[doc] = owner_key
        self.fact()
        if doc not in (comment or ""):
            self.bad(f"comment-missing:{what}", doc=doc, got=(comment or "")[:80], entity=owner_key)

    def check_no_stray_comments(self):
        """no doc#k on any entity other than k's"""
        db = self.db
        seen = []
        for t in db.types.values():
            seen.append(("type:" + t["scoped_name"], t["comment"], "type"))
            for v in t["enum_values"]:
                seen.append(("enumvalue:" + t["scoped_name"], v["comment"], "enum-value"))
        for f in db.functions.values():
            seen.append(("function:" + f["scoped_name"], f["comment"], "function"))
        for e in db.elements.values():
            seen.append(("element:" + e["scoped_name"], e["comment"], "element"))
        for s in db.make_seqs.values():
            seen.append(("seq:" + s["scoped_name"], s["comment"], "make-seq"))
        for key, comment, what in seen:
            for d in re.findall(r"detached#\w+", comment or ""):
                self.fact()
                self.bad(f"comment-detached-attached:{what}", doc=d, found_on=key)
            for d in re.findall(r"doc#\w+", comment or ""):
                self.fact()
                owner = self.docs.get(d)
                if owner is not None and owner != key:
                    if what == "element" and owner.startswith("function:") and key in self.prop_getters and \
                            self.prop_getters[key] == owner:
                        # deliberate, documented in the code: a MAKE_PROPERTY without its own comment shows its
                        # getter's comment
                        self.res.count("property_shows_getter_comment")
                        continue
                    self.bad(f"comment-on-wrong-entity:{what}<-{owner.split(':')[0]}", doc=d, owner=owner, found_on=key)

    # ---- functions
    def check_function(self, qname, fns, cls):
        db = self.db
        lookup = qname
        if fns[0].get("typecast"):
            # the database names conversion operators "operator typecast <type>"
            lookup = qname.replace("operator int", "operator typecast int")
        dbfs = db.functions_named(lookup)
        self.fact()
        kind = fns[0]["kind"]
        if not dbfs:
            if all(x.get("overrides") for x in fns):
                # unspecified: an override of a published base-class virtual need not be listed again in the
                # derived class (the base entry dispatches virtually); the code omits it deliberately
                self.res.count("override_not_relisted")
                return
            self.bad(f"function-missing:{kind}", name=qname)
            return
        if len(dbfs) > 1:
            self.bad(f"function-duplicated:{kind}", name=qname)
        f = dbfs[0]
        self.res.features.add(f"fn:{kind}:{'ov' if len(fns) > 1 else '1'}")
        exp_flags = dict(is_method=cls is not None, is_constructor=kind in ("ctor", "copy_ctor"),
                         is_destructor=False)
        if kind != "ctor":
            exp_flags["is_virtual"] = any(x.get("virtual") for x in fns)
            exp_flags["is_operator_typecast"] = bool(fns[0].get("typecast"))
            exp_flags["is_unary_op"] = fns[0].get("operator") == "neg"
        for k, v in exp_flags.items():
            self.fact()
            if f[k] != v:
                self.bad(f"function-flag:{k}:{kind}", name=qname, expected=v, got=f[k])
        if cls is not None:
            self.fact()
            ct = db.types.get(f["class"])
            if ct is None or ct["scoped_name"] != cls["qname"]:
                self.bad("function-class-wrong", name=qname, got=ct and ct["scoped_name"])
        for x in fns:
            self.want_comment(x.get("doc"), "function:" + lookup, f["comment"], "function")
        # wrappers: exactly the expected variants
        wl = f["c_wrappers"] if self.cfg == "c" else f["python_wrappers"]
        ws = [db.wrappers[w] for w in wl if w in db.wrappers]
        expected = []
        for x in fns:
            if x["kind"] == "copy_ctor":
                expected.append((x, [dict(name="vf_o", type=dict(k="obj", cls=x["cls"], mode="cref"), default=None)], 0))
                continue
            vs = variants(x)
            if self.cfg == "native":
                vs = vs[:1]          # one wrapper with is_optional flags
            for ps, k in vs:
                expected.append((x, ps, k))
        unmatched = list(ws)
        for x, ps, k in expected:
            found = None
            cands = []
            for w in unmatched:
                wp = [p for p in w["params"] if not p["is_this"]]
                if [p["name"] for p in wp] == [p["name"] for p in ps]:
                    cands.append((w, wp))
            # parameter names identify the variant; when two overloads happen to use the same names, the one whose
            # types agree is the counterpart (a type mismatch is then still reported against the only candidate)
            for w, wp in cands:
                if all(db.tname(dp["type"]) in expect_type(mp["type"], "param") for mp, dp in zip(ps, wp)):
                    found = w
                    break
            if found is None and cands:
                found = cands[0][0]
            self.fact()
            if found is None:
                self.bad(f"variant-missing:{x['kind']},omitted={k}", name=qname, params=[p["name"] for p in ps],
                         have=[[p["name"] for p in w["params"]] for w in ws])
                continue
            unmatched.remove(found)
            self.check_wrapper(x, ps, k, found, cls)
        for w in unmatched:
            self.fact()
            self.bad(f"variant-unexpected:{kind}", name=qname, params=[p["name"] for p in w["params"]])

    def check_wrapper(self, x, ps, k, w, cls):
        db = self.db
        q = x.get("qname")
        wp = list(w["params"])
        is_inst = x["kind"] == "method"
        if is_inst:
            self.fact()
            if not wp or not wp[0]["is_this"]:
                self.bad("this-missing:method", name=q)
            else:
                th = wp.pop(0)
                self.fact()
                exp = cls["qname"] + (" const *" if x.get("const") else " *")
                if db.tname(th["type"]) != exp:
                    self.bad("this-type:" + ("const" if x.get("const") else "nonconst"), name=q, got=db.tname(th["type"]),
                             expected=exp)
        else:
            self.fact()
            if any(p["is_this"] for p in wp):
                self.bad(f"this-unexpected:{x['kind']}", name=q)
            wp = [p for p in wp if not p["is_this"]]
        nd = len(variants(x)) - 1 if x["kind"] != "copy_ctor" else 0
        n = len(x["params"]) if x["kind"] != "copy_ctor" else 1
        for i, (mp, dp) in enumerate(zip(ps, wp)):
            self.fact(2)
            self.res.features.add("param:" + tkind(mp["type"]))
            got = db.tname(dp["type"])
            if got not in expect_type(mp["type"], "param"):
                self.bad("param-type:" + tkind(mp["type"]), name=q, param=mp["name"], got=got,
                         expected=sorted(expect_type(mp["type"], "param")))
            exp_opt = i >= n - nd
            if dp["is_optional"] != exp_opt:
                self.bad(f"param-optional-flag:expected={exp_opt}", name=q, param=mp["name"], index=i)
        # return
        if x["kind"] in ("ctor", "copy_ctor"):
            self.fact(2)
            if not w["has_return_value"] or db.tname(w["return_type"]) != cls["qname"] + " *":
                self.bad("ctor-return-type", name=q, got=db.tname(w["return_type"]))
            if not w["caller_manages"]:
                self.bad("caller-manages:ctor", name=q)
            if x["kind"] == "copy_ctor":
                self.fact()
                if not w["copy_constructor"]:
                    self.bad("copy-constructor-flag", name=q)
            return
        rt = x["ret"]
        self.fact()
        self.res.features.add("ret:" + tkind(rt))
        if rt["k"] == "void":
            if w["has_return_value"]:
                self.bad("return-type:void", name=q, got=db.tname(w["return_type"]))
            return
        if not w["has_return_value"]:
            self.bad("return-missing:" + tkind(rt), name=q)
            return
        got = db.tname(w["return_type"])
        if got not in expect_type(rt, "ret"):
            self.bad("return-type:" + tkind(rt), name=q, got=got, expected=sorted(expect_type(rt, "ret")))
        self.fact()
        owns = rt["k"] == "obj" and rt["mode"] == "val"
        if bool(w["caller_manages"]) != owns:
            self.bad("caller-manages:" + tkind(rt), name=q, expected=owns, got=w["caller_manages"])

    # ---- everything
    def run(self):
        db, m = self.db, self.m
        for e in m["enums"]:
            t = db.type_by_scoped(e["qname"])
            self.fact()
            if t is None and (e.get("in_namespace") or (e.get("owner") and not db.type_by_scoped(e["owner"]))):
                # a namespace member (or a member of a class that is itself not exported) need not be listed
                continue
            if t is None:
                self.bad("enum-missing:" + ("scoped" if e["scoped"] else "unscoped"), name=e["qname"])
                continue
            self.res.features.add("enum:" + ("scoped" if e["scoped"] else "unscoped") + (":nested" if e["owner"] else ""))
            self.fact(4)
            if not t["is_enum"]:
                self.bad("kind:enum", name=e["qname"])
            if t["is_scoped_enum"] != e["scoped"]:
                self.bad("enum-scoped-flag", name=e["qname"], expected=e["scoped"])
            if t["is_nested"] != bool(e["owner"]):
                self.bad("nesting:enum", name=e["qname"])
            elif e["owner"]:
                o = db.types.get(t["outer_class"])
                if o is None or o["scoped_name"] != e["owner"]:
                    self.bad("nesting:enum-outer", name=e["qname"], got=o and o["scoped_name"])
            self.want_comment(e.get("doc"), "type:" + e["qname"], t["comment"], "enum")
            got = [(v["name"], v["value"]) for v in t["enum_values"]]
            exp = [(v["name"], v["value"]) for v in e["members"]]
            self.fact(len(exp))
            if sorted(got) != sorted(exp):
                self.bad("enum-values:" + ("scoped" if e["scoped"] else "unscoped"), name=e["qname"], got=got, expected=exp)
            for v in t["enum_values"]:
                mv = next((x for x in e["members"] if x["name"] == v["name"]), None)
                if mv:
                    self.fact()
                    if v["scoped_name"] != mv["qname"]:
                        self.bad("enum-value-scoped-name:" + ("scoped" if e["scoped"] else "unscoped") +
                                 (",nested" if e["owner"] else ""), got=v["scoped_name"], expected=mv["qname"])
        classes = {c["qname"]: c for c in m["classes"]}
        # names a global signature or base list refers to (members of namespaces are exported only then)
        referred = set()
        for c in m["classes"]:
            for b in c["bases"]:
                referred.add(b["qname"])
            if c.get("in_namespace"):
                continue
            for f in c["ctors"] + c["methods"]:
                for t_ in [p["type"] for p in f["params"]] + [f["ret"]]:
                    referred.add(t_.get("cls") or t_.get("name"))
        for f in m["functions"]:
            for t_ in [p["type"] for p in f["params"]] + [f["ret"]]:
                referred.add(t_.get("cls") or t_.get("name"))
        for c in m["classes"]:
            t = db.type_by_scoped(c["qname"])
            self.fact()
            if t is None:
                if c.get("in_namespace") and c["qname"] not in referred:
                    self.res.count("namespace_class_not_referred")
                    continue
                if c.get("outer") and classes.get(c["outer"], {}).get("in_namespace") and c["outer"] not in referred:
                    continue
                self.bad("class-missing" + (":in-namespace" if c.get("in_namespace") else ""), name=c["qname"])
                continue
            if c.get("in_namespace"):
                self.res.features.add("class:in-namespace")
            self.res.features.add("class:bases=%d%s" % (len(c["bases"]), ":virtual" if any(b["virtual"] for b in c["bases"]) else ""))
            self.fact(3)
            if not (t["is_class"] or t["is_struct"]):
                self.bad("kind:class", name=c["qname"])
            if not t["is_fully_defined"]:
                self.bad("class-not-fully-defined", name=c["qname"])
            if t["true_name"] != c["qname"]:
                self.bad("class-true-name", name=c["qname"], got=t["true_name"])
            self.want_comment(c.get("doc"), "type:" + c["qname"], t["comment"], "class")
            # nesting
            self.fact(2)
            if bool(t["is_nested"]) != bool(c.get("outer")):
                self.bad("nesting:class-flag:depth=%d" % c.get("depth", 0), name=c["qname"], got=t["is_nested"])
            elif c.get("outer"):
                o = db.types.get(t["outer_class"])
                self.res.features.add("class:nested:depth=%d" % c["depth"])
                if o is None or o["scoped_name"] != c["outer"]:
                    self.bad("nesting:class-outer:depth=%d" % c["depth"], name=c["qname"], got=o and o["scoped_name"])
                elif t["index"] not in o["nested_types"]:
                    self.bad("nesting:outer-does-not-list:depth=%d" % c["depth"], name=c["qname"])
            got = sorted(db.tname(d["base"]) or "?" for d in t["derivations"])
            self.fact()
            if got != sorted(b["qname"] for b in c["bases"]):
                self.bad("bases:%d" % len(c["bases"]), name=c["qname"], got=got, expected=[b["qname"] for b in c["bases"]])
            else:
                for d in t["derivations"]:
                    mb = next(b for b in c["bases"] if b["qname"] == db.tname(d["base"]))
                    self.fact()
                    if d["downcast_is_impossible"] != mb["virtual"]:
                        self.bad("downcast-possible-flag:" + ("virtual" if mb["virtual"] else "nonvirtual"), name=c["qname"])
            # functions grouped by qualified name
            groups = {}
            for f in c["ctors"] + [c["copy_ctor"]] + c["methods"]:
                groups.setdefault(f["qname"], []).append(f)
            for qn, fns in groups.items():
                self.check_function(qn, fns, c)
            # data members
            for mm in c["members"]:
                if mm.get("twin"):
                    # the same member spelled directly and through a typedef: the recorded accessors must agree
                    if mm["name"].startswith("tw_direct_"):
                        e1 = next((e for e in db.elements.values() if e["scoped_name"] == mm["qname"]), None)
                        e2 = next((e for e in db.elements.values() if e["scoped_name"] == c["qname"] + "::" + mm["twin"]), None)
                        kind = "class" if mm.get("classmember") else ("const-int" if mm["const"] else "int")
                        self.fact()
                        self.res.features.add("member:typedef-twin:" + kind)
                        if (e1 is None) != (e2 is None):
                            self.bad("typedef-twin-member:presence:" + kind, name=mm["qname"], direct=e1 is not None, alias=e2 is not None)
                        elif e1 is not None:
                            for fl in ("has_getter", "has_setter"):
                                self.fact()
                                if e1[fl] != e2[fl]:
                                    self.bad(f"typedef-twin-member:{fl}:" + kind, name=mm["qname"], direct=e1[fl], alias=e2[fl])
                    if mm.get("classmember"):
                        continue
                e = next((e for e in db.elements.values() if e["scoped_name"] == mm["qname"]), None)
                self.fact()
                what = ("static" if mm["static"] else "const" if mm["const"] else "array" if mm["array"] else "plain")
                if e is None:
                    self.bad("member-missing:" + what, name=mm["qname"])
                    continue
                self.res.features.add("member:" + what + ":" + mm["type"]["k"])
                self.want_comment(mm.get("doc"), "element:" + mm["qname"], e["comment"], "member")
                self.fact(3)
                et = db.types.get(e["type"])
                if mm["array"]:
                    if et is None or not et["is_array"] or et["array_size"] != mm["array"]:
                        self.bad("member-type:array", name=mm["qname"], got=et and et["true_name"])
                elif mm["name"].startswith("tw_alias_"):
                    pass      # declared through a typedef: the recorded type is the typedef (checked by the twin rule)
                else:
                    exp = {"atomic string", "std::string", "std::basic_string< char >"} if mm["type"]["k"] == "string" else \
                        expect_type(mm["type"], "ret")
                    tn = db.tname(e["type"]) or ""
                    if tn.replace(" const", "") not in exp and tn not in exp:
                        self.bad("member-type:" + tkind(mm["type"]), name=mm["qname"], got=tn, expected=sorted(exp))
                if not e["has_getter"]:
                    self.bad("member-getter-missing:" + what, name=mm["qname"])
                if mm["const"] and e["has_setter"]:
                    self.bad("member-setter-on-const", name=mm["qname"])
                if not mm["const"] and not mm["array"] and not e["has_setter"]:
                    self.bad("member-setter-missing:" + what, name=mm["qname"])
            for pr in c["properties"]:
                e = next((e for e in db.elements.values() if e["scoped_name"] == pr["qname"]), None)
                self.fact()
                if e is None:
                    self.bad("property-missing", name=pr["qname"])
                    continue
                self.res.features.add("property:" + ("rw" if pr["setter"] else "ro"))
                if pr.get("doc") is None:
                    self.prop_getters["element:" + pr["qname"]] = "function:" + pr["getter"]
                self.want_comment(pr.get("doc"), "element:" + pr["qname"], e["comment"], "property")
                self.fact(2)
                g = db.functions.get(e["getter"]) if e["has_getter"] else None
                if g is None or g["scoped_name"] != pr["getter"]:
                    self.bad("property-getter", name=pr["qname"], got=g and g["scoped_name"])
                s = db.functions.get(e["setter"]) if e["has_setter"] else None
                if (s["scoped_name"] if s else None) != pr["setter"]:
                    self.bad("property-setter:" + ("expected" if pr["setter"] else "unexpected"), name=pr["qname"],
                             got=s and s["scoped_name"])
            for sp in c.get("seqprops", []):
                e = next((e for e in db.elements.values() if e["scoped_name"] == sp["qname"]), None)
                self.fact()
                nacc = sum(1 for k in ("num", "get", "set", "remove", "insert") if k in sp)
                if e is None:
                    self.bad("seq-property-missing:accessors=%d" % nacc, name=sp["qname"])
                    continue
                self.res.features.add("seq_property:accessors=%d" % nacc)
                self.want_comment(sp.get("doc"), "element:" + sp["qname"], e["comment"], "seq-property")
                if sp.get("doc") is None:
                    self.prop_getters["element:" + sp["qname"]] = "function:" + sp["get"]
                self.fact()
                if not e["is_sequence"]:
                    self.bad("seq-property-not-sequence", name=sp["qname"])
                for role, has, fld in (("num", None, "length_function"), ("get", "has_getter", "getter"),
                                       ("set", "has_setter", "setter"), ("remove", "has_del_function", "del_function"),
                                       ("insert", "has_insert_function", "insert_function")):
                    self.fact()
                    f = db.functions.get(e[fld]) if (has is None or e[has]) and e[fld] else None
                    got = f["scoped_name"] if f else None
                    if got != sp.get(role):
                        self.bad("seq-property-accessor:" + role, name=sp["qname"], got=got, expected=sp.get(role))
            for mp in c.get("mapprops", []):
                e = next((e for e in db.elements.values() if e["scoped_name"] == mp["qname"]), None)
                self.fact()
                nacc = sum(1 for k in ("has", "get", "set", "clear") if k in mp)
                what = "accessors=%d%s" % (nacc, ",keys" if "getkey" in mp else "")
                if e is None:
                    self.bad("map-property-missing:" + what, name=mp["qname"])
                    continue
                self.res.features.add("map_property:" + what)
                self.want_comment(mp.get("doc"), "element:" + mp["qname"], e["comment"], "map-property")
                if mp.get("doc") is None:
                    self.prop_getters["element:" + mp["qname"]] = "function:" + mp["get"]
                self.fact()
                if not e["is_mapping"]:
                    self.bad("map-property-not-mapping", name=mp["qname"])
                for role, has, fld in (("has", "has_has_function", "has_function"), ("get", "has_getter", "getter"),
                                       ("set", "has_setter", "setter"), ("clear", "has_del_function", "del_function"),      # the 4th accessor is the key deleter
                                       ("getkey", "has_getkey_function", "getkey_function")):
                    self.fact()
                    f = db.functions.get(e[fld]) if e[has] and e[fld] else None
                    got = f["scoped_name"] if f else None
                    if got != mp.get(role):
                        self.bad("map-property-accessor:" + role, name=mp["qname"], got=got, expected=mp.get(role))
                if "num_keys" in mp:
                    self.fact()
                    f = db.functions.get(e["length_function"]) if e["length_function"] else None
                    if (f["scoped_name"] if f else None) != mp["num_keys"]:
                        self.bad("map-property-accessor:num_keys", name=mp["qname"], got=f and f["scoped_name"],
                                 expected=mp["num_keys"])
            for sq in c["seqs"]:
                s = next((s for s in db.make_seqs.values() if s["scoped_name"] == sq["qname"]), None)
                self.fact()
                if s is None:
                    self.bad("make-seq-missing", name=sq["qname"])
                    continue
                self.res.features.add("make_seq")
                self.fact(2)
                ng = db.functions.get(s["num_getter"])
                eg = db.functions.get(s["element_getter"])
                if ng is None or ng["scoped_name"] != sq["num"]:
                    self.bad("make-seq-num-getter", name=sq["qname"])
                if eg is None or eg["scoped_name"] != sq["element"]:
                    self.bad("make-seq-element-getter", name=sq["qname"])
        for td in m.get("typedefs", []):
            t = db.type_by_scoped(td["qname"])
            self.fact()
            if t is None:
                self.bad("typedef-missing:template-instantiation", name=td["qname"])
                continue
            self.res.features.add("typedef:template-instantiation")
            self.fact(2)
            if not t["is_typedef"]:
                self.bad("kind:typedef", name=td["qname"])
            elif db.tname(t["wrapped_type"]) != td["target"]:
                self.bad("typedef-target:template-instantiation", name=td["qname"], got=db.tname(t["wrapped_type"]),
                         expected=td["target"])
        groups = {}
        for f in m["functions"]:
            groups.setdefault(f["qname"], []).append(f)
        for qn, fns in groups.items():
            self.check_function(qn, fns, None)
        self.check_no_stray_comments()


def run_case(ctx, case):
    res = core.CaseResult()
    b = core.build("asan")
    d = ctx.casedir(case["id"])
    if case.get("files"):
        libgen.write_files(d, case["files"])
        import json
        model = json.loads(case["files"]["liba.model.json"])
    else:
        lib = libgen.generate(random.Random(case["libseed"]), "liba", size=case.get("size", 1.0), ext=True)
        lib.write(d)
        model = lib.model
    cfgname = case["cfg"]
    r, p = libbuild.igate(b, d, "liba", CONFIGS[cfgname])
    if r.rc != 0 or r.died():
        res.inconclusive = "interrogate did not succeed: " + r.how()
        shutil.rmtree(d, ignore_errors=True)
        return res
    r2, dump = tools.idbdump([p["od"]])
    if dump is None:
        res.inconclusive = "database unreadable: " + r2.how()
        shutil.rmtree(d, ignore_errors=True)
        return res
    Cmp(res, tools.Db(dump), model, cfgname).run()
    res.sample = dict(libseed=case.get("libseed"), cfg=cfgname, classes=len(model["classes"]),
                      facts=res.counters.get("facts_compared"))
    if res.violations:
        rc = dict(id=case["id"], cfg=cfgname, files=libgen.read_files(d))
        # one report per distinct key per case
        seen = {}
        for k, dd in res.violations:
            seen.setdefault(k, dict(dd, replay_case=rc))
        res.violations = list(seen.items())
    shutil.rmtree(d, ignore_errors=True)
    return res


def main(chk):
    chk.rule = ("case = (libgen library with doc comments, config in {-c -fnames -string, -python-native -string}); every model "
                "entity is looked up by scoped name and its facts compared; distinct = entity/parameter/result feature "
                "signatures actually compared")
    chk.assumptions = ["expected wrapper parameter types follow the documented remap rules (reference->pointer, concrete->pointer, string->atomic string under -string)",
                       "facts the statement does not classify (index numbers, order, synthesised entities' comments, upcast availability) are not judged"]
    rng = chk.rng
    cases = []
    cid = 0
    for i in range(chk.pick(400, 2500)):
        libseed = rng.randrange(1 << 30)
        for cfg in ("c", "native"):
            cid += 1
            cases.append(dict(id=cid, libseed=libseed, cfg=cfg, size=1.0))
    chk.run_cases(__name__, cases)
