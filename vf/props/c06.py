"""C06 -- valid C++ is accepted and every printed type is the type that was written.

Workload (a): declgen translation units (vf/gen/declgen.py): free functions, methods, static methods, extern
variables, data members, typedefs and alias-declarations whose types are built from the declarator grammar over
a universe of namespaces, nested classes, enums, typedef chains, templates, using-declarations/directives,
namespace aliases and shadowing names.  g++ -fsyntax-only filters every line first.
Oracle: interrogate -promiscuous -c -fnames must accept what g++ accepts; every database prototype is rewritten
into a pointer(-to-member) declaration initialised from the original entity (no conversions are admitted there),
every variable/member/typedef true-name is compared with std::is_same against the entity's declared type; g++
judges.  Workload (b): the parser-inc headers g++ accepts and tests/cppparser must parse with zero errors.
"""
import copy
import os
import random
import re

from vf import core, tools
from vf.gen import declgen as dg

LEVEL = "exploration"


def _err_lines(text, fname):
    """-> {line: first message}"""
    out = {}
    for m in re.finditer(r"(?m)^([^\s:]+):(\d+):(?:\d+:)? (?:fatal )?error:? ?(.*)$", text):
        if os.path.basename(m.group(1)) == fname:
            out.setdefault(int(m.group(2)), m.group(3))
    return out


def _blamed_lines(text, fname):
    """like _err_lines, but an error reported inside a template / at an earlier declaration "required from" a later
    line is blamed on that later line (the instantiating declaration), not on the template definition."""
    out, req = {}, []
    for ln in text.split("\n"):
        m = re.match(r"^([^\s:]+):(\d+):(?:\d+:)?\s+required (?:from|by)", ln)
        if m and os.path.basename(m.group(1)) == fname:
            req.append(int(m.group(2)))
            continue
        m = re.match(r"^([^\s:]+):(\d+):(?:\d+:)? (?:fatal )?error:? ?(.*)$", ln)
        if m and os.path.basename(m.group(1)) == fname:
            if req:
                out.setdefault(max(req), m.group(3))
            else:
                out.setdefault(int(m.group(2)), m.group(3))
            req = []
    return out


PREFIX_KW = re.compile(r"^((static|virtual|inline|explicit|constexpr|extern)\s+)+")


def rewrite_prototype(proto, scoped, name, kind, target):
    """database prototype -> (pointer declaration initialised from the original entity, definition form)"""
    lines = [ln.strip() for ln in proto.split("\n") if ln.strip()]
    if len(lines) != 1:
        return None, None
    p = lines[0]
    if p.endswith(";"):
        p = p[:-1].rstrip()
    p = PREFIX_KW.sub("", p)
    i = p.find(scoped + "(")
    if i < 0:
        return None, None
    if kind == "method":
        cls = scoped[: -len("::" + name)] if scoped.endswith("::" + name) else None
        if not cls:
            return None, None
        ptr = f"({cls}::*vp_{name})"
    else:
        ptr = f"(*vp_{name})"
    first = p[:i] + ptr + p[i + len(scoped):] + " = &" + target + ";"
    second = (p + " { throw 0; }") if "::" in scoped else None
    return first, second


class Evaluator:
    def __init__(self, b, work):
        self.b = b
        self.work = work
        self.n = 0
        self.runs = 0

    def newdir(self):
        self.n += 1
        d = os.path.join(self.work, f"e{self.n}")
        os.makedirs(d, exist_ok=True)
        return d

    # ---- step 1: the reference compiler filters
    def gxx_filter(self, tu, keep, keep_env, status):
        d = self.newdir()
        for _ in range(8):
            text, lm = dg.render_tu(tu, keep, keep_env)
            open(os.path.join(d, "t.h"), "w").write(text)
            r = tools.gxx(["-fsyntax-only", "-w", "-fmax-errors=0", "-x", "c++", "t.h"], cwd=d)
            if r.rc == 0:
                return text, lm, d
            errs = _blamed_lines(r.err, "t.h")
            if not errs:
                # a diagnostic without location (e.g. "cc1plus: error: declaration of 'a0' as array of void"):
                # find the first offending declaration by the shortest failing prefix
                order = [lm[ln][1] for ln in sorted(lm) if lm[ln][0] == "decl" and lm[ln][1] in keep]
                lo, hi = 0, len(order)

                def gfails(k):
                    t2, _ = dg.render_tu(tu, set(order[:k]), keep_env)
                    open(os.path.join(d, "t2.h"), "w").write(t2)
                    return tools.gxx(["-fsyntax-only", "-w", "-x", "c++", "t2.h"], cwd=d).rc != 0
                if not order or gfails(0):
                    raise core.HarnessError("g++ failed without a line: " + r.err[-800:])
                while hi - lo > 1:
                    mid = (lo + hi) // 2
                    if gfails(mid):
                        hi = mid
                    else:
                        lo = mid
                keep.discard(order[hi - 1])
                status[order[hi - 1]] = ("gxx-rejected", r.err.strip().split("\n")[0][:80])
                continue
            progress = False
            for ln in errs:
                tag = lm.get(ln)
                if not tag:
                    continue
                if tag[0] == "decl" and tag[1] in keep:
                    keep.discard(tag[1])
                    status[tag[1]] = ("gxx-rejected", errs[ln][:80])
                    progress = True
                elif tag[0] == "env" and tag[1] in keep_env:
                    keep_env.discard(tag[1])
                    status["env:" + tag[1]] = ("gxx-rejected", errs[ln][:80])
                    progress = True
                elif tag[0] == "host":
                    for dd in tu["decls"]:
                        if dd["site"] == tag[1] and dd["id"] in keep:
                            keep.discard(dd["id"])
                            status[dd["id"]] = ("gxx-rejected", "host: " + errs[ln][:60])
                            progress = True
            if not progress:
                raise core.HarnessError("g++ rejects the environment: " + r.err[-800:])
        raise core.HarnessError("g++ filter did not converge")

    # ---- step 2: interrogate must accept what is left
    def run_interrogate(self, d, sub):
        out = os.path.join(d, sub)
        os.makedirs(out, exist_ok=True)
        self.runs += 1
        r, p = tools.interrogate(self.b, [os.path.join(d, "t.h")], out, opts=["-promiscuous", "-c", "-fnames"],
                                 defs=["-D__cplusplus=201703L"])
        return r, p

    def parse_ok(self, r):
        return r.rc == 0 and not r.died() and re.search(r"(?m)\berror\b", r.err) is None

    def first_rejected(self, tu, keep, keep_env, text, lm, d, r):
        """interrogate rejected the TU rendered as (text, lm) in directory d (result r).  -> (tag, message) naming
        the first offending line; diagnostics the parser places at the end of the file (or on no line of ours) are
        localised by a binary search for the shortest failing prefix of the declaration list."""
        errs = _err_lines(r.err, "t.h") if not r.died() else {}
        last_line = max(lm) if lm else 0
        if r.died():
            m = re.search(r"Assertion `([^']*)' failed", r.err)
            fr = [f for f in r.frames(6) if not f.startswith("__")][:2]
            died_msg = "died:" + r.how() + ":" + (("assert(" + m.group(1)[:60] + ")@") if m else "") + ",".join(fr)
        if errs:
            ln = min(errs)
            tag = lm.get(ln)
            eof = "end of file" in errs[ln] or ln > last_line
            if tag and not eof:
                return tag, errs[ln][:100]
        msg = (errs[min(errs)] if errs else r.err.strip().split("\n")[0])[:100]
        if r.died():
            msg = died_msg[:160]
        order = [lm[ln][1] for ln in sorted(lm) if lm[ln][0] == "decl"]
        if not order:
            return None, msg
        lo, hi = 0, len(order)          # invariant: prefix lo passes (or is empty), prefix hi fails

        def fails(k):
            sub = set(order[:k])
            dd = self.newdir()
            t2, _ = dg.render_tu(tu, sub, keep_env)
            open(os.path.join(dd, "t.h"), "w").write(t2)
            rr, _p = self.run_interrogate(dd, "o")
            return not self.parse_ok(rr)
        if fails(0):
            return None, msg            # the environment / host skeleton itself
        while hi - lo > 1:
            mid = (lo + hi) // 2
            if fails(mid):
                hi = mid
            else:
                lo = mid
        return ("decl", order[hi - 1]), msg

    def evaluate(self, tu, ids=None, max_parser_reruns=12, want_types=True):
        """-> (status, info).  status[id] one of
             ("gxx-rejected", msg) ("parser-rejected", msg) ("not-exported",) ("ok",) ("ok-scope-relative",)
             ("mismatch", printed, gxx message) ("unjudged", why);  status["env:<id>"] for environment lines."""
        status = {}
        keep = set(d["id"] for d in tu["decls"]) if ids is None else set(ids)
        keep_env = set(e["id"] for e in tu["env"] + tu.get("late_env", []))
        by = {d["id"]: d for d in tu["decls"]}
        info = {"tool_problem": None}
        reruns = 0
        while True:
            text, lm, d = self.gxx_filter(tu, keep, keep_env, status)
            r, p = self.run_interrogate(d, "o")
            if r.timed_out:
                info["tool_problem"] = "interrogate timed out"
                return status, info
            if self.parse_ok(r):
                break
            reruns += 1
            if reruns > max_parser_reruns:
                for i in keep:
                    status.setdefault(i, ("unjudged", "too many parser errors in one TU"))
                info["tool_problem"] = "parse errors: " + r.err[-300:]
                return status, info
            tag, msg = self.first_rejected(tu, keep, keep_env, text, lm, d, r)
            if tag and tag[0] == "decl":
                status[tag[1]] = ("parser-rejected", msg)
                keep.discard(tag[1])
            elif tag and tag[0] == "env":
                status["env:" + tag[1]] = ("parser-rejected", msg)
                keep_env.discard(tag[1])
            elif tag and tag[0] == "host":
                status["host:" + tag[1]] = ("parser-rejected", msg)
                for dd in tu["decls"]:
                    if dd["site"] == tag[1]:
                        keep.discard(dd["id"])
                        status.setdefault(dd["id"], ("unjudged", "host class rejected by the parser"))
            else:
                info["tool_problem"] = "parse error on unknown line: " + r.err[-300:]
                return status, info
        # ---- step 3: what the database says
        rr, dd = tools.idbdump([p["od"]])
        if dd is None:
            info["tool_problem"] = "idbdump failed: " + rr.how()
            return status, info
        fn_by_name = {}
        for f in dd["functions"]:
            fn_by_name.setdefault(f["name"], []).append(f)
        el_by_name = {e["name"]: e for e in dd["elements"]}
        types = {t["index"]: t for t in dd["types"]}
        td_by_name = {t["name"]: t for t in dd["types"] if t["is_typedef"]}
        lines = ["#include <type_traits>", '#include "t.h"',
                 "template<class T> using vf_strip = typename std::remove_cv<typename std::remove_reference<T>::type>::type;"]
        owner = {}
        second = {}
        printed = {}
        for i in sorted(keep):
            dcl = by[i]
            tgt = dg.qualified_name(tu, dcl)
            if dcl["kind"] in ("func", "method", "smethod"):
                fs = fn_by_name.get(dcl["name"], [])
                if len(fs) != 1:
                    status[i] = ("not-exported",)
                    continue
                f = fs[0]
                a, b2 = rewrite_prototype(f["prototype"], f["scoped_name"], dcl["name"], dcl["kind"], tgt)
                printed[i] = f["prototype"].strip()
                if a is None:
                    status[i] = ("mismatch", printed[i], "declarator name not found in the prototype")
                    continue
                lines.append(f"namespace vf_c{i} {{ {a} }}")
                owner[len(lines)] = i
                second[i] = b2
            elif dcl["kind"] in ("var", "member"):
                e = el_by_name.get(dcl["name"])
                if e is None or e["type"] not in types:
                    status[i] = ("not-exported",)
                    continue
                tn = types[e["type"]]["true_name"]
                printed[i] = tn
                # the element record holds the value type: interrogate deliberately strips a reference and the
                # top-level cv-qualifiers there (scan_element/unwrap_reference), so both sides are stripped alike
                lines.append(f"namespace vf_c{i} {{ static_assert(std::is_same<vf_strip<decltype({tgt})>, "
                             f"vf_strip<{tn} > >::value, \"type\"); }}")
                owner[len(lines)] = i
            else:
                t = td_by_name.get(dcl["name"])
                if t is None or t["wrapped_type"] not in types or not want_types:
                    status[i] = ("not-exported",)
                    continue
                tn = types[t["wrapped_type"]]["true_name"]
                printed[i] = tn
                lines.append(f"namespace vf_c{i} {{ static_assert(std::is_same<{tgt}, {tn} >::value, "
                             f"\"typedef target\"); }}")
                owner[len(lines)] = i
        open(os.path.join(d, "chk.cxx"), "w").write("\n".join(lines) + "\n")
        r = tools.gxx(["-fsyntax-only", "-w", "-fmax-errors=0", "chk.cxx"], cwd=d)
        errs = _err_lines(r.err, "chk.cxx") if r.rc != 0 else {}
        if r.rc != 0 and not errs:
            raise core.HarnessError("check TU failed outside its own lines: " + r.err[-800:])
        failing = {}
        for ln, msg in errs.items():
            if ln in owner:
                failing.setdefault(owner[ln], msg)
        for ln, i in owner.items():
            if i not in failing:
                status[i] = ("ok",)
        # second opinion for members: the prototype as an out-of-class definition (names after the
        # declarator-id are looked up in the member's scope there)
        sec_lines = ["#include <type_traits>", '#include "t.h"']
        sec_owner = {}
        for i in failing:
            if second.get(i):
                sec_lines.append(second[i])
                sec_owner[len(sec_lines)] = i
        sec_fail = set(failing)
        if sec_owner:
            open(os.path.join(d, "chk2.cxx"), "w").write("\n".join(sec_lines) + "\n")
            r2 = tools.gxx(["-fsyntax-only", "-w", "-fmax-errors=0", "chk2.cxx"], cwd=d)
            e2 = _err_lines(r2.err, "chk2.cxx") if r2.rc != 0 else {}
            bad2 = {sec_owner[ln] for ln in e2 if ln in sec_owner}
            for i in sec_owner.values():
                if i not in bad2:
                    sec_fail.discard(i)
                    status[i] = ("ok-scope-relative",)
        for i in sec_fail:
            status[i] = ("mismatch", printed.get(i, ""), failing[i][:160])
        return status, info


def category(st):
    if st is None:
        return None
    if st[0] == "parser-rejected":
        return "rejected-valid"
    if st[0] == "mismatch":
        return "mismatch"
    return None


KEYCAT = {"func": "proto-type-mismatch", "method": "proto-type-mismatch", "smethod": "proto-type-mismatch",
          "var": "element-type-mismatch", "member": "element-type-mismatch", "typedef": "typedef-target-mismatch",
          "alias": "typedef-target-mismatch"}


def _fresh(cands, nid):
    for c in cands:
        nid[0] += 1
        c["id"] = nid[0]
        c["name"] = re.sub(r"_\d+$", "", c["name"]) + f"_{nid[0]}"
    return cands


def minimise_rejected(ev, tu, dcl, nid, max_rounds=12):
    """reduce a declaration the parser rejects: the candidates go, smallest first, into one TU; the parser stops at
    its first error, which therefore names the smallest candidate that is still rejected."""
    cur = copy.deepcopy(dcl)
    cur_msg = None
    for _ in range(max_rounds):
        cands = _fresh(sorted(dg.decl_candidates(cur), key=dg.decl_size)[:60], nid)
        if not cands:
            break
        # candidates may sit at different sites (a method also tried as a free function): one run per site
        hit = None
        hit_msg = None
        for site in sorted({c["site"] for c in cands}, key=lambda x: (x != "global", x)):
            group = [c for c in cands if c["site"] == site and c["kind"] in ("typedef", "alias")] + \
                    [c for c in cands if c["site"] == site and c["kind"] not in ("typedef", "alias")]
            tu2 = dict(tu, decls=tu.get("support", []) + group)
            keep = set(c["id"] for c in tu2["decls"])
            keep_env = set(e["id"] for e in tu["env"] + tu.get("late_env", []))
            text, lm, d = ev.gxx_filter(tu2, keep, keep_env, {})
            if not keep:
                continue
            r, _p = ev.run_interrogate(d, "o")
            if ev.parse_ok(r):
                continue
            tag, _msg = ev.first_rejected(tu2, keep, keep_env, text, lm, d, r)
            if tag and tag[0] == "decl":
                cc = [x for x in group if x["id"] == tag[1]]
                if not cc:
                    continue            # a supporting typedef, not a candidate
                c = cc[0]
                if hit is None or dg.decl_size(c) < dg.decl_size(hit):
                    hit = c
                    hit_msg = _msg
        if hit is None or dg.decl_size(hit) > dg.decl_size(cur):
            break
        if hit == cur:
            break
        cur = hit
        cur_msg = hit_msg
    return cur, cur_msg


def minimise_mismatch(ev, tu, pending, nid, max_rounds=10, cand_cap=40):
    """pending: {orig id: decl}.  Batched greedy reduction: every round puts the candidates of all pending
    declarations into one TU; each declaration moves to its smallest candidate whose printed type is still wrong."""
    cur = {k: copy.deepcopy(v) for k, v in pending.items()}
    last = {}
    active = set(cur)
    for _ in range(max_rounds):
        if not active:
            break
        cands, owner = [], {}
        for k in sorted(active):
            for c in _fresh(sorted(dg.decl_candidates(cur[k]), key=dg.decl_size)[:cand_cap], nid):
                owner[c["id"]] = k
                cands.append(c)
        if not cands:
            break
        cands.sort(key=lambda c: (dg.decl_size(c), c["id"]))
        st, info = ev.evaluate(dict(tu, decls=tu.get("support", []) + cands), max_parser_reruns=60)
        if info.get("tool_problem"):
            # too many candidates of this round are rejected by the parser for one TU: judge every declaration's
            # candidates in a TU of their own, so that none stays unreduced for lack of a verdict
            st = {}
            for k in sorted(active):
                sub = [c for c in cands if owner[c["id"]] == k]
                st1, _i1 = ev.evaluate(dict(tu, decls=tu.get("support", []) + sub), max_parser_reruns=60)
                st.update({c["id"]: st1.get(c["id"]) for c in sub})
        moved = set()
        for c in cands:
            k = owner[c["id"]]
            if k not in moved and category(st.get(c["id"])) == "mismatch" and dg.decl_size(c) <= dg.decl_size(cur[k]):
                cur[k] = c
                last[k] = st[c["id"]]
                moved.add(k)
        active = moved
    return cur, last


def minimise(ev, tu, pending, rejected_cap=6):
    nid = [100000]
    mm = {k: v[0] for k, v in pending.items() if v[1] == "mismatch"}
    out, last = minimise_mismatch(ev, tu, mm, nid)
    # a declaration the batch left untouched gets a reduction of its own (a crowded batch TU can hide its candidates)
    for k in sorted(mm):
        if out[k] == mm[k] and len(mm) > 1:
            o1, l1 = minimise_mismatch(ev, tu, {k: mm[k]}, nid)
            out[k] = o1[k]
            last.update(l1)
    n = 0
    for k, v in sorted(pending.items(), key=lambda kv: dg.decl_size(kv[1][0])):
        if v[1] == "rejected-valid" and n < rejected_cap:
            n += 1
            out[k], msg = minimise_rejected(ev, tu, v[0], nid)
            if msg is not None:
                last[k] = ("parser-rejected", msg)      # the reduced declaration's own diagnostic
    return out, last


# Root-cause classes for minimal witnesses (every remaining element of a 1-minimal witness is necessary for the
# failure, so a witness that needs the trigger of a class below is explained by it).  Anything else keeps its full
# structure signature as key.
NAMED = r"(?:elab-\w+ )?(?:nested-)?(?:class|enum|enum-class|typedef|alias|fwd-class)/"
PLAIN_NAMED = re.compile(r"^(?:method:|static-method:)?(?:ret|param|var|member|typedef|alias)=(?:elab-(?:struct|class) )?"
                         r"[\w-]+/([\w-]+)$")


LOOKUP_VIA = re.compile(r"/(unq-usingdecl|unq-usingdir|unq-base|unq-mbase-first|unq-mbase-middle|unq-mbase-last|"
                        r"unq-injected-base|relqual|via-derived|nsalias)\b")


def cause_of(cat, sig, printed="", text=""):
    if "array[tparam](" in sig and re.search(r"\[K\b", printed):
        return "template-parameter-array-bound-not-substituted"
    # the known cause classes do not depend on whether an array bound is a literal or a template parameter
    sig = sig.replace("array[tparam](", "array(")
    m = PLAIN_NAMED.match(sig)
    if cat == "rejected-valid" and printed.startswith("died:"):
        return "tool-aborts-on-valid-input," + re.sub(r"[^\w:(),@=<>!&|.*+-]", "_", printed[5:])[:120]
    if cat == "rejected-valid":
        if re.search(r"alias=(const |volatile |const volatile )", sig) or \
                re.match(r"using \w+ = (const\s+)?volatile\b", text):
            return "alias-declaration-starting-with-cv-qualifier"
        if "elab-enum" in sig:
            return "elaborated-enum-specifier"
        if "^::" in sig or "<::" in text:
            return "template-argument-list-starting-with-scope-operator"
        if "^volatile" in sig or re.search(r"<\s*(const\s+)?volatile\b", text):
            return "template-argument-starting-with-volatile"
        if "intexpr" in sig and "kFour" in text:
            return "constexpr-variable-in-template-argument"
        if "alias=" in sig and re.search(r"(ptr|ref|rref|memptr)\((array|fn)\(", sig):
            return "alias-declaration-with-parenthesised-abstract-declarator"
        if re.search(r"(ptr|ref|rref|memptr)\((array|fn)\(", sig) and \
                not re.search(r"(array|fn)\((const |volatile )*(int|builtin|void)\b", sig):
            return "named-type-before-parenthesised-declarator"
        if m:
            return "type-name-not-recognised,via=" + m.group(1)
        vias = set(LOOKUP_VIA.findall(sig))
        if len(vias) == 1 and sig.count("=") == 1:
            # a single component whose only named type is found through name lookup (pointer / reference to it,
            # unnamed parameter, ...)
            return "type-name-not-recognised,via=" + vias.pop()
        return None
    if re.search(r"^method:ret=(ptr|ref|rref|memptr)\((array|fn)\(.*cvq=const", sig) and "volatile" not in sig:
        return "const-method-returning-pointer-to-array-or-function-misplaces-const"
    if "volatile" in sig:
        return "volatile-qualifier-dropped"
    if re.search(r"memptr\((?!fn\()", sig):
        return "pointer-to-data-member-printed-as-pointer"
    vias = set(LOOKUP_VIA.findall(sig))
    if len(vias) == 1 and re.search(r"fn\([^;]*;[^)]*/(unq-using|unq-base|unq-injected|relqual)", sig):
        return "function-declarator-with-unrecognised-parameter-type-taken-as-initialiser,via=" + vias.pop()
    if "unknown" in printed and re.search(r"ptr\(fn\((?!ptr\()[^;]*;[^)]*tmpl", sig):
        # a function-pointer argument (non-pointer result) whose parameter list names another template-id
        return "function-type-template-argument-with-inner-template-id-printed-as-unknown"
    if "unknown" in printed and "tmpl" in sig:
        # (also abstract declarators such as `int (*)[4]` as template arguments)
        return "template-argument-printed-as-unknown"
    if re.search(r"fn\((ptr|ref|rref|memptr)\((array|fn)\(.*\) const", sig):
        # `int (*(G::*p)() const)[2]` is printed `int (*(G::*p)(void))[2] const`
        return "const-member-function-pointer-returning-pointer-to-array-or-function-misplaces-const"
    if re.search(r"const (ptr|memptr)\(((ptr|memptr)\()*array\(", sig):
        # `int (*const p)[4]` is printed `int (*p)[4] const`: the qualifier of the pointer lands after the bound
        return "cv-qualified-pointer-to-array-misprinted"
    if re.search(r"(ptr|ref|rref)\(array\(", sig):
        return "pointer-or-reference-to-array-loses-parentheses"
    if "tmpl-member-" in sig:
        return "member-of-template-instantiation-printed-without-arguments"
    if re.search(r"(const|volatile) ptr\((ptr\()*fn\(", sig):
        return "cv-qualified-pointer-to-function-misprinted"
    if "memptr(fn(" in sig:
        return "pointer-to-member-function-class-name-not-fully-qualified"
    if re.search(r"elab-(class|struct) ", sig):
        return "elaborated-class-specifier-taken-as-new-nested-class"
    if "tmplalias/" in sig:
        return "alias-template-printed-unsubstituted"
    if re.search(r"tmpl\w*/[\w-]+<[^>]*(elab-|fn\()", sig):
        return "template-argument-printed-as-unknown"
    if re.search(r"fn\(const ", sig):
        return "const-return-type-of-function-pointer-dropped"
    if m:
        return "name-resolved-to-wrong-entity,via=" + m.group(1)
    if len(vias) == 1:
        # the 1-minimal witness still spells a type through name lookup although the candidate with a plainly
        # qualified class in its place (`G`) was tried and passed: the lookup of that name is what fails
        via = sorted(vias)[0]
        if "elab-enum" in sig:
            return "elaborated-enum-specifier-looked-up-outside-class-scope,via=" + via
        if "((" in printed:
            return "parameter-with-unrecognised-type-name-taken-as-expression,via=" + via
        return "name-resolved-to-wrong-entity,via=" + via
    return None


def prepare(chk):
    core.build("asan")
    tools.idbdump_path("asan")


def run_case(ctx, case):
    if case.get("kind") == "corpus":
        return run_corpus(ctx, case)
    res = core.CaseResult()
    b = core.build("asan")
    d = ctx.casedir(case["id"])
    if "tus" in case:
        # stored witnesses (findings / regression corpus): many small TUs, judged concurrently
        from concurrent.futures import ThreadPoolExecutor

        def one(k):
            r1 = core.CaseResult()
            judge_tu(b, os.path.join(d, f"w{k}"), copy.deepcopy(case["tus"][k]), r1, case)
            return r1
        with ThreadPoolExecutor(max_workers=min(8, core.NPROC)) as ex:
            for r1 in ex.map(one, range(len(case["tus"]))):
                res.violations += r1.violations
                res.features |= r1.features
                for k, v in r1.counters.items():
                    res.count(k, v)
                res.sample = res.sample or r1.sample
        return res
    if "tu" in case:
        tu = copy.deepcopy(case["tu"])
    else:
        rng = random.Random(case["seed"])
        tu = dg.gen_tu(rng, n_decls=case.get("n", 50), n_hosts=case.get("hosts", 4), depth=case.get("depth", 3))
    judge_tu(b, d, tu, res, case)
    return res


_KNOWN = None


def _known_keys():
    global _KNOWN
    if _KNOWN is None:
        _KNOWN = {f["key"] for f in core.load_findings() if f["property"] == "C06"}
    return _KNOWN


def _needed_support(support, m):
    """the typedef/alias declarations `m` refers to, transitively, in their original order"""
    need, text = set(), dg.render_decl(m)
    changed = True
    while changed:
        changed = False
        for x in support:
            if x["id"] not in need and x["id"] != m["id"] and re.search(r"\b" + x["name"] + r"\b", text):
                need.add(x["id"])
                text += " " + dg.render_decl(x)
                changed = True
    return [x for x in support if x["id"] in need]


def judge_tu(b, d, tu, res, case):
    os.makedirs(d, exist_ok=True)
    ev = Evaluator(b, d)
    full_decls = copy.deepcopy(tu["decls"])
    st, info = ev.evaluate(tu)
    by = {x["id"]: x for x in tu["decls"]}
    if info["tool_problem"] and not any(category(s) for s in st.values()):
        res.inconclusive = info["tool_problem"][:200]
    pending = {}
    for i, dcl in by.items():
        s = st.get(i)
        if s is None:
            continue
        res.count("decl_" + s[0].replace("-", "_"))
        if s[0] in ("ok", "ok-scope-relative", "mismatch"):
            res.count("declarations_compared")
            ts = [dcl["ret"]] + dcl["params"] if "ret" in dcl else [dcl["type"]]
            for t in ts:
                for f in dg.layers_of(t):
                    res.features.add(dcl["kind"] + ":" + f)
        if category(s):
            pending[i] = (dcl, category(s))
    envs = {e["id"]: e for e in tu["env"] + tu.get("late_env", [])}
    for k, s in st.items():
        if isinstance(k, str) and k.startswith("env:") and s[0] == "parser-rejected":
            e = envs[k[4:]]
            res.violation("rejected-valid:env=" + e["cls"], witness=e["text"], got=s[1], expected="g++ accepts",
                          tu={"env": [e], "late_env": [], "hosts": [], "decls": []})
        if isinstance(k, str) and k.startswith("host:") and s[0] == "parser-rejected":
            h = [x for x in tu["hosts"] if x["id"] == k[5:]][0]
            res.violation("rejected-valid:host-class", witness=h["open"] + " ".join(h["nested"]) + h["close"], got=s[1],
                          expected="g++ accepts")
    if not res.sample:
        text, _ = dg.render_tu(tu)
        res.sample = {"tu_excerpt": text[-1400:]}
    # environment lines one of the two front-ends rejected are left out of every further TU
    bad_env = {k[4:] for k, s in st.items() if isinstance(k, str) and k.startswith("env:")}
    if bad_env:
        tu = dict(tu, env=[e for e in tu["env"] if e["id"] not in bad_env],
                  late_env=[e for e in tu.get("late_env", []) if e["id"] not in bad_env])
    # typedefs / aliases of this TU that both front-ends accept stay available to the reduced declarations
    support = [x for x in tu["decls"] if x["kind"] in ("typedef", "alias") and
               st.get(x["id"], ("?",))[0] in ("ok", "not-exported")]
    tu = dict(tu, support=support)
    if pending:
        # identical declarations (up to names) need one reduction only
        uniq, rep = {}, {}
        for i, (dcl, cat) in sorted(pending.items()):
            sig = (cat, dg.decl_signature(dcl))
            if sig not in uniq:
                uniq[sig] = i
            rep[i] = uniq[sig]
        work = {i: pending[i] for i in set(rep.values())}
        cap = case.get("min_cap", 40)
        chosen = dict(sorted(work.items(), key=lambda kv: dg.decl_size(kv[1][0]))[:cap])
        res.count("violating_declarations", len(pending))
        if case.get("minimal"):
            mins, last = {i: v[0] for i, v in chosen.items()}, {}
        else:
            mins, last = minimise(ev, tu, chosen)
            res.count("violating_declarations_not_minimised", len(work) - len(mins))
        seen = set()
        for i, m in sorted(mins.items()):
            cat = chosen[i][1]
            sig = dg.decl_signature(m)
            if i in last:
                st[i] = last[i]
            cause = cause_of(cat, sig, str(st[i][1]) if len(st[i]) > 1 else "", dg.render_decl(m))
            head = "rejected-valid" if cat == "rejected-valid" else KEYCAT[m["kind"]]
            key = head + ":" + (("cause=" + cause) if cause else sig)
            if key in seen:
                continue
            seen.add(key)
            wtu = {"env": tu["env"], "late_env": tu.get("late_env", []), "hosts": tu["hosts"],
                   "decls": _needed_support(support, m) + [m]}
            if not case.get("minimal") and ("C06:" + key) not in _known_keys():
                # a key no listed finding explains: the witness must fail on its own (a diagnostic that spilled over
                # from a neighbouring line of a batch TU is not evidence)
                st1, _i1 = ev.evaluate(copy.deepcopy(wtu))
                if category(st1.get(m["id"])) != cat:
                    if m["id"] != i or case.get("context_tu"):
                        res.count("unconfirmed_batch_artefacts_dropped")
                        continue
                    # the unreduced declaration failed in the generated TU itself but not alone: the failure needs
                    # other declarations of that TU (e.g. a twin type created earlier); the whole TU is the witness
                    res.count("context_dependent_witnesses")
                    wtu = {"env": tu["env"], "late_env": tu.get("late_env", []), "hosts": tu["hosts"],
                           "decls": [x for x in full_decls]}
                else:
                    st[i] = st1[m["id"]]
            res.violation(key, witness=dg.render_decl(m), original=dg.render_decl(by[i]),
                          got=str(st[i][1:])[:300], expected="g++ accepts the declaration and the printed type is exactly "
                          "the declared one", tu=wtu)
    res.count("interrogate_runs", ev.runs)


# ---------------------------------------------------------------------------
# corpus: parser-inc headers accepted by g++, tests/cppparser
# ---------------------------------------------------------------------------

def run_corpus(ctx, case):
    res = core.CaseResult()
    b = core.build("asan")
    pinc = b.parser_inc
    for rel in case["files"]:
        if rel.startswith("tests/"):
            path = os.path.join(b.src, rel)
            defs = ["-D__cplusplus"] if re.search(r"\.[ch](pp|xx)$|\.h$", rel) else []
            if not os.path.exists(path):
                res.count("corpus_missing")
                continue
            r = tools.parse_file(b, [path], defs=defs, timeout=60)
            tag = "tests/" + os.path.basename(rel)
        else:
            path = os.path.join(pinc, rel)
            g = tools.gxx(["-fsyntax-only", "-w", "-nostdinc", "-nostdinc++", "-I", pinc, "-x", "c++", path], cwd=pinc)
            if g.rc != 0:
                res.count("corpus_rejected_by_reference")
                continue
            r = tools.parse_file(b, [path], timeout=60)
            tag = "parser-inc/" + rel
        res.count("corpus_files_parsed")
        res.features.add("corpus:" + tag)
        if r.timed_out:
            res.count("corpus_timeouts")
            continue
        nerr = len(re.findall(r"(?m)\berror\b", r.err))
        if r.rc != 0 or r.died() or nerr:
            m = re.search(r"(?m)^.*\berror\b.*$", r.err)
            res.violation("corpus-parse-error:" + tag, witness=rel, got=(m.group(0) if m else r.how())[:200],
                          expected="zero errors")
    res.sample = {"corpus_files": case["files"][:5]}
    return res


def corpus_cases(b, chunk=12):
    files = []
    for root, _dirs, fs in os.walk(b.parser_inc):
        for f in fs:
            files.append(os.path.relpath(os.path.join(root, f), b.parser_inc))
    files.sort()
    tdir = os.path.join(b.src, "tests", "cppparser")
    tests = sorted("tests/cppparser/" + f for f in os.listdir(tdir) if not f.startswith("CMake")) \
        if os.path.isdir(tdir) else []
    allf = tests + files
    return [{"id": f"corpus{k}", "kind": "corpus", "files": allf[i:i + chunk]}
            for k, i in enumerate(range(0, len(allf), chunk))]


def main(chk):
    b = core.build("asan")
    chk.rule = ("declgen TUs: ~50 uniquely named declarations (functions, methods, static methods, extern variables, data "
                "members, typedefs, aliases) per TU over a universe of namespaces/nested classes/templates/usings; a "
                "declaration counts when g++ accepted it, interrogate exported it and its printed prototype/type was "
                "compiled against the original entity; distinct = (declaration kind, adjacent declarator-constructor pair "
                "or named-type description incl. how the name was found) actually compared; plus one signature per "
                "corpus header parsed")
    chk.assumptions = [
        "g++ 12 -std=gnu++17 decides which declarations are valid and what a spelling means",
        "initialising a pointer(-to-member) from &entity admits no conversions, so g++ accepts the rewritten "
        "prototype iff parameter and return types are exactly the declared ones; a member prototype that only "
        "compiles as an out-of-class definition (scope-relative names) is accepted as correct",
        "functions at namespace scope are not exported by interrogate and are therefore not generated",
        "wrapper signatures in the -oc file are covered by C03/C11, not here",
    ]
    n = chk.pick(96, 400)
    cases = []
    for k in range(n):
        cases.append({"id": k, "seed": chk.rng.getrandbits(48), "n": 50, "hosts": 4,
                      "depth": chk.pick(3, 4), "min_cap": chk.pick(12, 16)})
    cases += corpus_cases(b)
    chk.run_cases(__name__, cases)
