"""C07 -- recorded constants equal the values the C++ compiler computes.

Workload: headers of generated integer constant expressions (vf.gen.exprgen) in the three places the database
stores an integer: enumerator values (explicit, implicit increment, scoped / fixed underlying type / anonymous),
integer-valued macros, array bounds; with references to earlier enumerators, macros and const variables.
Oracle: a g++-compiled program that includes the same header and prints every constant, cross-checked by the
generator's own Python evaluator (disagreement = inconclusive, never a violation).  Observation: the database
written by `interrogate -promiscuous -c -fnames`, read back through the extern "C" query interface (idbdump).

A failing constant is minimised to its smallest failing sub-expression (each probed as its own enumerator against the
real binary) and keyed by that node's root construct.
"""
import os
import random
import re
import shutil

from vf import core, tools
from vf.gen import exprgen as E

LEVEL = "exploration"
PID = "C07"
OPTS = ["-promiscuous", "-c", "-fnames"]
PROBE_FLAVOR = "ubsan"          # re-runs that localise/minimise use the faster UBSan-only build of the same tree


# ---------------------------------------------------------------------------
# build products (parent builds in prepare(); workers only compute paths)
# ---------------------------------------------------------------------------

def prepare(chk):
    for fl in ("asan", PROBE_FLAVOR):
        core.build(fl)
        tools.idbdump_path(fl)


def _built(flavor):
    root = os.path.join(core.CACHE, flavor)
    b = core.Built(flavor, root, os.path.join(core.CACHE, "src"))
    if not os.path.exists(b.interrogate):
        b = core.build(flavor)
    return b


def _idbdump(flavor):
    p = os.path.join(core.CACHE, "harness-" + flavor, "idbdump")
    return p if os.path.exists(p) else tools.idbdump_path(flavor)


# ---------------------------------------------------------------------------
# items: the declarations of a generated header
#   {"k":"enum",  "name":T, "en":e, "node":N, "head":"enum T"}                one enumerator
#   {"k":"chain", "name":T, "elems":[[e, N|None], ...], "head":...}           several, implicit increments
#   {"k":"macro", "name":M, "node":N, "wrap":bool}
#   {"k":"array", "name":a, "node":N, "el":"int"}
#   {"k":"var",   "name":v, "node":N, "decl":"const int"}                     support only (referenced, not judged)
#   any of enum/macro/array may carry "text" instead of "node" (unevaluable family; expected value from g++ only)
# ---------------------------------------------------------------------------

def item_nodes(it):
    if it["k"] == "chain":
        return [n for _, n in it["elems"] if n is not None]
    return [it["node"]] if it.get("node") is not None else []


def refs_of_node(n, out=None):
    if out is None:
        out = set()
    for nd in E.subexprs(n):
        if nd[0] == "ref":
            out.add(nd[2])
    return out


def item_defines(it):
    if it["k"] == "enum":
        return [it["en"]] + ([it["name"] + "::" + it["en"]] if it.get("scoped") else [])
    if it["k"] == "chain":
        return [e for e, _ in it["elems"]]
    return [it["name"]]


def item_refs(it):
    out = set()
    for n in item_nodes(it):
        refs_of_node(n, out)
    out -= set(item_defines(it))
    for x in it.get("uses", []):
        out.add(x)
    return out


def rexpr(it, n, ctx):
    return E.render(n, ctx, tight=it.get("tight", False))


def emit_item(it):
    k = it["k"]
    if k == "enum":
        init = it["text"] if "text" in it else rexpr(it, it["node"], 3)
        return "%s { %s = %s };" % (it.get("head", "enum " + it["name"]), it["en"], init)
    if k == "chain":
        parts = []
        for e, n in it["elems"]:
            parts.append(e if n is None else "%s = %s" % (e, rexpr(it, n, 3)))
        return "%s { %s };" % (it.get("head", "enum " + it["name"]), ", ".join(parts))
    if k == "macro":
        body = it["text"] if "text" in it else rexpr(it, it["node"], 2)
        if it.get("wrap"):
            body = "(" + body + ")"
        return "#define %s %s" % (it["name"], body)
    if k == "array":
        init = it["text"] if "text" in it else rexpr(it, it["node"], 3)
        return "extern %s %s[%s];" % (it.get("el", "int"), it["name"], init)
    if k == "scoped":
        return it["text"]
    if k == "tmpl":
        # (a template argument must not contain an unparenthesised '>')
        return "extern XT<(%s)> %s;" % (rexpr(it, it["node"], 3), it["name"])
    if k == "defarg":
        return "void %s(int x = %s);" % (it["name"], rexpr(it, it["node"], 3))
    if k == "var":
        return "%s %s = %s;" % (it["decl"], it["name"], rexpr(it, it["node"], 3))
    if k == "raw":
        return it["text"]
    raise ValueError(k)


def emit_header(items):
    return "\n".join(emit_item(it) for it in items) + "\n"


def constants_of(it):
    """judged constants of an item: list of (const_name, kind, accessor-for-g++)"""
    k = it["k"]
    scoped = it.get("scoped")
    if k == "enum":
        return [(it["en"], "enum", (it["name"] + "::" if scoped else "") + it["en"])]
    if k == "chain":
        return [(e, "enum", (it["name"] + "::" if scoped else "") + e) for e, _ in it["elems"]]
    if k == "macro":
        return [(it["name"], "macro", "(" + it["name"] + ")")]
    if k == "array":
        return [(it["name"], "array", "sizeof(%s)/sizeof(%s[0])" % (it["name"], it["name"]))]
    if k == "tmpl":
        return [(it["name"], "tmpl", "sizeof(%s.v)/sizeof(int)" % it["name"])]
    if k == "scoped":
        return [(c[0], "scoped", c[1]) for c in it["consts"]]
    return []


def expected_py(it):
    """{const_name: value} from the Python evaluator (None when not evaluable by it)."""
    out = {}
    k = it["k"]
    if k == "chain":
        prev = None
        for e, n in it["elems"]:
            if n is None:
                v = 0 if prev is None else prev + 1
            else:
                r = E.try_eval(n)
                v = r[0] if r else None
            if v is None:
                break
            out[e] = v
            prev = v
    elif k == "scoped":
        for c in it["consts"]:
            out[c[0]] = c[2]
    elif k in ("enum", "macro", "array", "tmpl") and it.get("node") is not None:
        r = E.try_eval(it["node"])
        if r:
            out[it["en"] if k == "enum" else it["name"]] = r[0]
    return out


# ---------------------------------------------------------------------------
# the reference: g++
# ---------------------------------------------------------------------------

def gxx_values(d, tag, items, prelude=""):
    """compile + run a program printing every judged constant.  -> ({name: int}, error-or-None)"""
    hdr = os.path.join(d, tag + ".h")
    open(hdr, "w").write(prelude + emit_header(items))
    lines = ['#include <stdio.h>', '#include "%s.h"' % tag, "int main() {"]
    names = []
    for it in items:
        for cn, kind, acc in constants_of(it):
            if it.get("nojudge"):
                continue
            names.append(cn)
            lines.append('  printf("%s %%lld\\n", (long long)(%s));' % (cn, acc))
    lines.append("  return 0;\n}")
    src = os.path.join(d, tag + "_o.cxx")
    exe = os.path.join(d, tag + "_o")
    open(src, "w").write("\n".join(lines) + "\n")
    r = tools.gxx(["-w", "-O0", "-o", exe, src], timeout=180, cwd=d)
    if r.timed_out:
        return None, "reference timeout"
    if r.rc != 0:
        return None, "reference rejected: " + r.err[:300]
    r = core.run([exe], timeout=30)
    if r.rc != 0:
        return None, "reference program failed"
    out = {}
    for ln in r.out.splitlines():
        a, b = ln.split()
        out[a] = int(b)
    return out, None


# ---------------------------------------------------------------------------
# observation: interrogate + idbdump
# ---------------------------------------------------------------------------

class Watchdog(Exception):
    """a tool run timed out twice: the case is inconclusive"""


class Runner:
    def __init__(self, d, res):
        self.d = d
        self.res = res
        self.n = 0

    def run(self, items, flavor="asan", prelude=""):
        """-> (status, db, Result).  status None when the process behaved, else (category, detail)"""
        self.n += 1
        tag = "r%d" % self.n
        sub = os.path.join(self.d, tag)
        os.makedirs(sub, exist_ok=True)
        hdr = os.path.join(sub, "h.h")
        open(hdr, "w").write(prelude + emit_header(items))
        b = _built(flavor)
        try:
            r, paths = tools.interrogate(b, [hdr], sub, opts=OPTS, timeout=60)
        except core.HarnessError:
            # the shared build cache may be in the middle of a rebuild: wait for it (flock) and try once more
            b = core.build(flavor)
            r, paths = tools.interrogate(b, [hdr], sub, opts=OPTS, timeout=60)
        self.res.count("interrogate_runs")
        self.res.count("interrogate_runs_" + flavor)
        if r.timed_out:
            r2, paths = tools.interrogate(b, [hdr], sub, opts=OPTS, timeout=120)
            if r2.timed_out:
                raise Watchdog()        # C07 does not promise termination; C15 does
            r = r2
        if r.died() or r.rc != 0:
            shutil.rmtree(sub, ignore_errors=True)
        if r.died():
            return (died_kind(r), ",".join(r.frames(3))), None, r
        if r.rc != 0:
            return ("rejected", first_error(r.err)), None, r
        ub = ubsan_in_evaluate(r.err)
        if ub:
            return ("ubsan-in-evaluate", ub), None, r
        if "runtime error:" in r.err:
            self.res.count("ubsan_arith_outside_evaluate", r.ubsan_arith())
        import json
        d = None
        for attempt in (0, 1):
            try:
                rr = core.run([_idbdump(flavor), os.path.abspath(paths["od"])], timeout=60)
                if rr.rc == 0 and not rr.died():
                    d = json.loads(rr.out)
                    break
            except (core.HarnessError, ValueError):
                pass
            tools._idbdump.pop(flavor, None)
            tools.idbdump_path(flavor)          # (re)build the reader under its lock, then try once more
        if d is None:
            # the database interrogate wrote cannot be read back: not a statement about constants (C11/C12's matter)
            raise core.HarnessError("idbdump cannot read %s: %s" % (paths["od"], rr.err[-300:]))
        shutil.rmtree(sub, ignore_errors=True)
        return None, read_db(d), r


def died_kind(r):
    if "Assertion" in r.err and "failed" in r.err:
        return "assert"
    if r.uncaught():
        return "uncaught"
    if "AddressSanitizer" in r.err:
        m = re.search(r"AddressSanitizer: ([\w-]+)", r.err)
        kind = m.group(1) if m else "?"
        return "abort" if kind == "ABRT" else "asan-" + kind
    if r.sig == 6 or r.rc == 134:
        return "abort"
    if "runtime error:" in r.err:
        return "ubsan-fatal"
    return "signal"


def first_error(err):
    m = re.search(r"error: (.*)", err)
    if not m:
        return "?"
    s = re.sub(r"\b[Vv][A-Za-z]+_\d+(_\d+)?(::[a-z]+_\d+)?", "ID", m.group(1))
    s = re.sub(r"[0-9]+", "N", s)
    return re.sub(r"[^A-Za-z ]+", "", s).strip().replace(" ", "-")[:60]


def ubsan_in_evaluate(err):
    """kind of the first UBSan arithmetic report whose stack passes through CPPExpression::evaluate."""
    blocks = re.split(r"(?=^\S+: runtime error:)", err, flags=re.M)
    for b in blocks:
        if "runtime error:" in b and "CPPExpression::evaluate" in b:
            m = re.search(r"runtime error: ([a-z -]+)", b)
            return (m.group(1).strip().replace(" ", "-") if m else "?")[:40]
    return None


def read_db(d):
    enums = {}          # enumerator name -> value
    enum_types = set()
    for t in d["types"]:
        if t["is_enum"]:
            enum_types.add(t["name"])
            for v in t["enum_values"]:
                enums[v["name"]] = v["value"]
    mans = {m["name"]: (bool(m["has_int_value"]), m["int_value"]) for m in d["manifests"]}
    types = {t["index"]: t for t in d["types"]}
    arrays = {}
    for e in d["elements"]:
        t = types.get(e["type"])
        if t is not None and t["is_array"]:
            arrays[e["name"]] = t["array_size"]
        else:
            arrays[e["name"]] = None
    # `extern XT<expr> name;` with template<int N> struct XT { int v[N]; }: size of the member array of name's type
    elems = {e["index"]: e for e in d["elements"]}
    tmpl = {}
    for e in d["elements"]:
        t = types.get(e["type"])
        if t is not None and (t["is_struct"] or t["is_class"]):
            for ei in t["elements"]:
                m = elems.get(ei["index"] if isinstance(ei, dict) else ei)
                mt = types.get(m["type"]) if m else None
                if mt is not None and mt["is_array"]:
                    tmpl[e["name"]] = mt["array_size"]
    protos = {f["name"]: f.get("prototype", "") for f in d["functions"]}
    scoped = {}          # scoped element name -> array size (of the element, or of the member v of its XT<...> type)
    for e in d["elements"]:
        t = types.get(e["type"])
        if t is None:
            continue
        if t["is_array"]:
            scoped[e["scoped_name"]] = t["array_size"]
        elif t["is_struct"] or t["is_class"]:
            for ei in t["elements"]:
                m = elems.get(ei["index"] if isinstance(ei, dict) else ei)
                mt = types.get(m["type"]) if m else None
                if mt is not None and mt["is_array"]:
                    scoped[e["scoped_name"]] = mt["array_size"]
    return dict(enums=enums, enum_types=enum_types, manifests=mans, arrays=arrays, tmpl=tmpl, protos=protos,
                scoped=scoped)


def observe(db, it):
    """{const_name: ("val", v) | ("uneval",) | ("missing",)} for the judged constants of an item."""
    out = {}
    k = it["k"]
    if k in ("enum", "chain"):
        has_type = it["name"] in db["enum_types"] or it.get("anon")
        for cn, _, _ in constants_of(it):
            if cn in db["enums"]:
                out[cn] = ("val", db["enums"][cn])
            else:
                out[cn] = ("uneval",) if has_type else ("missing",)
    elif k == "macro":
        m = db["manifests"].get(it["name"])
        out[it["name"]] = ("missing",) if m is None else (("val", m[1]) if m[0] else ("uneval",))
    elif k == "scoped":
        for c in it["consts"]:
            sz = db["scoped"].get(c[0])
            out[c[0]] = ("missing",) if sz is None else (("uneval",) if sz < 0 else ("val", sz))
    elif k == "tmpl":
        sz = db["tmpl"].get(it["name"])
        out[it["name"]] = ("missing",) if sz is None else (("uneval",) if sz < 0 else ("val", sz))
    elif k == "array":
        if it["name"] not in db["arrays"]:
            out[it["name"]] = ("missing",)
        else:
            sz = db["arrays"][it["name"]]
            out[it["name"]] = ("uneval",) if (sz is None or sz < 0) else ("val", sz)
    return out


# ---------------------------------------------------------------------------
# judging one batch
# ---------------------------------------------------------------------------

class Batch:
    def __init__(self, ctx, case, res, items, prelude=""):
        self.res = res
        self.case = case
        self.items = items
        self.prelude = prelude
        self.d = ctx.casedir(case["id"])
        self.runner = Runner(self.d, res)
        self.byname = {}
        for it in items:
            for nm in item_defines(it):
                self.byname[nm] = it
        self.memo = {}            # probe memo: text -> outcome
        self.pn = 0
        self.flavor = PROBE_FLAVOR
        self._var_seen = set()
        self.subst = {}           # id(item) -> replacement item (a chain truncated before the element under study)

    # -- dependencies
    def deps(self, names):
        """items (in header order) defining `names`, transitively."""
        need = set()
        todo = list(names)
        while todo:
            nm = todo.pop()
            it = self.byname.get(nm)
            if it is None or id(it) in need:
                continue
            need.add(id(it))
            todo.extend(item_refs(it))
        return [self.subst.get(id(it), it) for it in self.items if id(it) in need]

    def support(self, its):
        names = set()
        for it in its:
            names |= item_refs(it)
        ids = {id(x) for x in its}
        return [x for x in self.deps(names) if id(x) not in ids]

    # -- step 1: run everything, get per-item process status + observations
    def run_all(self):
        """-> {id(item): ("proc", status) | ("obs", {const: obs})}, shadowed ids"""
        judged = [it for it in self.items]
        st, db, r = self.runner.run(self.items, "asan", self.prelude)
        out = {}
        if st is None:
            for it in judged:
                out[id(it)] = ("obs", observe(db, it))
            return out, set()
        # the whole header was lost: run items one by one (with their support), in order, skipping dependents of
        # items that failed
        self.res.count("batches_localised")
        failed_names = set()
        shadow = set()
        for it in judged:
            if it["k"] == "raw":
                continue
            sup = self.support([it])
            if any(n in failed_names for x in sup for n in item_defines(x)) or \
                    any(n in failed_names for n in item_refs(it)):
                shadow.add(id(it))
                failed_names.update(item_defines(it))
                continue
            st1, db1, r1 = self.runner.run(sup + [it], self.flavor, self.prelude)
            if st1 is None:
                out[id(it)] = ("obs", observe(db1, it))
            else:
                out[id(it)] = ("proc", st1)
                failed_names.update(item_defines(it))
        return out, shadow

    # -- probes: a node as its own enumerator
    def probe_items(self, nodes, tight=False):
        its = []
        for n in nodes:
            self.pn += 1
            its.append(dict(k="enum", name="VP_%d" % self.pn, en="vp_%d" % self.pn, node=n, tight=tight))
        return its

    def probe(self, nodes, extra_support=()):
        """outcomes of nodes probed as enumerators; fills self.memo[text].  Joint run, singles if the run is lost."""
        todo = []
        seen = set()
        for n in nodes:
            t = E.render(n, 3)
            if t not in self.memo and t not in seen:
                seen.add(t)
                todo.append(n)
        if not todo:
            return
        its = self.probe_items(todo)
        names = set()
        for n in todo:
            refs_of_node(n, names)
        sup = list(extra_support) + [x for x in self.deps(names) if x not in extra_support]
        st, db, r = self.runner.run(sup + its, self.flavor, self.prelude)
        if st is None:
            for it, n in zip(its, todo):
                self.memo[E.render(n, 3)] = self.node_outcome(observe(db, it)[it["en"]], n)
            return
        if len(todo) == 1:
            self.memo[E.render(todo[0], 3)] = ("proc", st)
            return
        for n in todo:
            self.probe([n], extra_support)

    @staticmethod
    def node_outcome(obs, n):
        exp = E.try_eval(n)
        if obs[0] == "val":
            if exp is not None and obs[1] == exp[0]:
                return ("ok",)
            return ("wrong", obs[1])
        return (obs[0],)

    def outcome(self, n):
        return self.memo[E.render(n, 3)]

    # -- step 2: minimise a failing node
    def uniq_subexprs(self, node):
        nodes, seen = [], set()
        for n in E.subexprs(node):
            t = E.render(n, 3)
            if t not in seen:
                seen.add(t)
                nodes.append(n)
        return nodes

    def first_lost(self, nodes, sup):
        """nodes: bottom-up list whose joint run is lost.  Bisect on the prefix length for the first node whose
        presence loses the run (all earlier ones -- in particular all its sub-expressions -- are fine)."""
        lo, hi = 0, len(nodes)        # invariant: prefix of length lo survives, prefix of length hi is lost
        while hi - lo > 1:
            mid = (lo + hi) // 2
            st, db, r = self.runner.run(sup + self.probe_items(nodes[:mid]), self.flavor, self.prelude)
            if st is None:
                lo = mid
            else:
                hi = mid
        return nodes[hi - 1]

    def minimise(self, node, extra_support=()):
        """probe `node` and its sub-expressions as plain enumerators.
        -> (minimal failing node, its outcome), or (None, None) when the node is fine as a plain enumerator."""
        nodes = self.uniq_subexprs(node)
        todo = [n for n in nodes if E.render(n, 3) not in self.memo]
        if todo:
            names = set()
            for n in todo:
                refs_of_node(n, names)
            sup = list(extra_support) + [x for x in self.deps(names) if x not in extra_support]
            its = self.probe_items(todo)
            st, db, r = self.runner.run(sup + its, self.flavor, self.prelude)
            if st is None:
                for it, n in zip(its, todo):
                    self.memo[E.render(n, 3)] = self.node_outcome(observe(db, it)[it["en"]], n)
            else:
                n = self.first_lost(todo, sup)
                self.probe([n], extra_support)
                if self.outcome(n)[0] == "ok":
                    # lost only in company: cannot attribute
                    return None, None
                # its sub-expressions do not lose the run, but one of them may already be wrong (and be the reason)
                self.probe(self.uniq_subexprs(n)[:-1], extra_support)
                node = n
        cur = node
        if self.outcome(cur)[0] == "ok":
            return None, None
        while True:
            bad = [c for c in E.children(cur) if self.outcome(c)[0] != "ok"]
            if not bad:
                break
            same = [c for c in bad if self.outcome(c)[0] == self.outcome(cur)[0]]
            cur = (same or bad)[0]
        return self.min_literal(cur, extra_support)

    def min_literal(self, n, extra_support):
        if n[0] == "lit":
            for red in E.literal_reductions(n):
                self.probe([red], extra_support)
                if self.outcome(red)[0] != "ok":
                    n = red
        if n[0] == "ref" and n[1] in ("const", "constexpr", "sconst"):
            # a reference to a const variable fails.  Variables are not judged themselves (the database stores no
            # integer for them), so look at the variable's own initializer first: if that already fails as a plain
            # enumerator, it -- not the reference -- is the minimal witness (e.g. `constexpr int k = char(x);`:
            # a cast to char is one of the accepted unevaluated constructs)
            var = self.byname.get(n[2])
            if var is not None and var.get("k") == "var" and var.get("node") is not None and \
                    n[2] not in self._var_seen:
                self._var_seen.add(n[2])
                mn, mo = self.minimise(var["node"], extra_support)
                self._var_seen.discard(n[2])
                if mn is not None:
                    return mn, mo
        return n, self.outcome(n)

    def enum_witness(self, node):
        """the items of a stand-alone header showing `node` as a plain enumerator (with what it refers to)"""
        pr = dict(k="enum", name="VP_w", en="vp_w", node=node)
        return self.support([pr]) + [pr]

    # -- keys
    def key_for(self, node, outcome, ctxnote=""):
        cat = {"wrong": "wrong-value", "uneval": "unevaluated", "missing": "missing"}.get(outcome[0])
        sig = E.root_sig(node)
        if outcome[0] == "proc":
            cat = outcome[1][0]
            if cat == "rejected":
                sig += ":" + outcome[1][1]
        elif outcome[0] == "wrong":
            cs = E.children(node)
            vals = [E.try_eval(c) for c in cs]
            got = outcome[1]
            if node[0] == "bin" and vals[0] and vals[1]:
                sig += ":got=" + ("operand" if got in (vals[0][0], vals[1][0]) else "other")
            elif node[0] in ("un", "cast", "par") and vals[0]:
                sig += ":got=" + ("operand" if got == vals[0][0] else "other")
        return "%s:%s%s" % (cat, sig, ctxnote)


def judge_batch(ctx, case, res, items, prelude=""):
    """generate the reference values, run the header, compare every constant, explain the failures."""
    B = Batch(ctx, case, res, items, prelude)
    gxx, err = gxx_values(B.d, "ref", items, prelude)
    if gxx is None:
        res.inconclusive = err.split(":")[0]
        res.count("rejected_by_reference")
        res.sample = res.sample or dict(header=emit_header(items)[:1500], note=err[:300])
        return B
    outs, shadow = B.run_all()
    failing = []            # (item, const-name | None when the run was lost, observation)
    failed_names = set()    # constants that failed or could not be judged: whatever uses them is not judged
    for it in items:
        if it["k"] == "raw":
            continue
        if it["k"] == "var":
            # support only (nothing of it is stored as an integer) -- unless the run is lost with it alone
            if id(it) in shadow or (item_refs(it) & failed_names):
                failed_names.update(item_defines(it))
            elif outs.get(id(it), ("obs",))[0] == "proc":
                failed_names.update(item_defines(it))
                failing.append((it, None, outs[id(it)]))
            continue
        consts = constants_of(it)
        if id(it) in shadow or (item_refs(it) & failed_names):
            res.count("constants_shadowed", len(consts))
            failed_names.update(item_defines(it))
            continue
        pyv = expected_py(it)
        agree = all(cn in gxx and cn in pyv and gxx[cn] == pyv[cn] for cn, _, _ in consts)
        o = outs[id(it)]
        if o[0] == "proc":
            failed_names.update(item_defines(it))
            if agree:
                failing.append((it, None, o))
            else:
                res.count("oracle_disagree", len(consts))
                res.inconclusive = res.inconclusive or "references disagree"
            continue
        dead = False
        for idx, (cn, kind, _) in enumerate(consts):
            if dead:
                res.count("constants_shadowed")
                failed_names.add(cn)
                continue
            if cn not in gxx or cn not in pyv or pyv[cn] != gxx[cn]:
                # the two references disagree: never a verdict
                res.count("oracle_disagree")
                res.inconclusive = res.inconclusive or "references disagree"
                failed_names.update(item_defines(it) if it["k"] != "chain" else [cn])
                if it["k"] == "chain":
                    dead = True
                continue
            exp = gxx[cn]
            ob = o[1][cn]
            res.count("constants_compared")
            if ob[0] == "val" and ob[1] == exp:
                res.count("constants_equal")
                note_features(res, it, idx)
            else:
                failing.append((it, cn, (("wrong", ob[1], exp) if ob[0] == "val" else ob)))
                failed_names.update(item_defines(it) if it["k"] != "chain" else [cn])
                if it["k"] == "chain":
                    dead = True        # later enumerators of the chain depend on this one
    if failing:
        explain(B, failing)
    if res.sample is None and case.get("kind", "batch") == "batch":
        res.sample = dict(header=(prelude + emit_header(items))[:1200],
                          constants=sum(len(constants_of(i)) for i in items))
    return B


def note_features(res, it, idx):
    k = it["k"]
    if k == "scoped":
        res.features.add("xtalk:same-name:" + it["form"])
        return
    if k == "chain":
        e, n = it["elems"][idx]
        if n is None:
            res.features.add("ctx:implicit-increment:prev=" + implicit_prev(it, e))
            return
        node = n
        res.features.add("ctx:chain-explicit")
    else:
        node = it["node"]
        res.features.add("ctx:" + k + (":wrapped" if it.get("wrap") else "") +
                         (":el=" + it["el"] if k == "array" else ""))
    if it.get("head") and it["head"] != "enum " + it["name"]:
        res.features.add("ctx:head:" + re.sub(r"V[A-Z]+_\d+", "T", it["head"]))
    if it.get("tight"):
        res.features.add("ctx:tight-spacing")
    res.features |= E.features(node)


CAT = {"wrong": "wrong-value", "uneval": "unevaluated", "missing": "missing"}


def explain(B, failing):
    """minimise every failing constant and report it under the key of its minimal witness."""
    # all sub-expressions of constants whose run survived can be probed in one joint run
    joint = []
    for it, cn, ob in failing:
        if cn is not None:
            node = failing_node(it, cn)
            if node is not None:
                joint.extend(E.subexprs(node))
    if joint:
        B.probe(joint)
    for it, cn, ob in failing:
        if cn is None:
            # the run was lost with this item alone (and its support): which expression, which sub-expression?
            key = witness = minnode = None
            for (en, nd) in (it["elems"] if it["k"] == "chain" else [(None, it["node"])]):
                if nd is None:
                    continue
                if it["k"] == "chain":
                    j = [e for e, _ in it["elems"]].index(en)
                    trunc = dict(it)
                    trunc["elems"] = it["elems"][:j]
                    B.subst[id(it)] = trunc if j else dict(k="raw", text="")
                mn, mo = B.minimise(nd)
                B.subst.pop(id(it), None)
                if mn is not None:
                    key, witness, minnode = B.key_for(mn, mo), "enum VP { vp = %s };" % E.render(mn, 3), mn
                    wit = B.enum_witness(mn)
                    break
            if key is None:
                # only fails in its own context (e.g. as an array bound): minimise within that context
                key, witness, minnode, wit = ctx_minimise(B, it, ob)
            report(B, key, it, cn, witness, ob, minnode, wit)
            continue
        if it["k"] == "scoped":
            # two entities of the same simple name in different scopes, used in one translation unit
            key = "%s:same-name-different-entity:form=%s" % (CAT[ob[0]], it["form"])
            report(B, key, it, cn, it["text"], ob, None, [it])
            continue
        node = failing_node(it, cn)
        if node is None:
            key = "%s:implicit-increment:prev=%s" % (CAT[ob[0]], implicit_prev(it, cn))
            report(B, key, it, cn, emit_item(it), ob, None, B.support([it]) + [it])
            continue
        mn, mo = B.minimise(node)
        if mn is None:
            key, witness, minnode, wit = ctx_minimise(B, it, ob, cn)
        else:
            key, witness, minnode = B.key_for(mn, mo), "enum VP { vp = %s };" % E.render(mn, 3), mn
            wit = B.enum_witness(mn)
        report(B, key, it, cn, witness, ob, minnode, wit)


def failing_node(it, cn):
    if it["k"] == "chain":
        for e, n in it["elems"]:
            if e == cn:
                return n
        return None
    return it.get("node")


def implicit_prev(it, cn):
    prev = "first"
    for e, n in it["elems"]:
        if e == cn:
            return prev
        prev = "implicit" if n is None else (E.root_sig(n).split(",")[0] if n[0] == "lit" else E.root_sig(n))
    return prev


def ctx_minimise(B, it, ob, cn=None):
    """the item's expression is fine as a plain enumerator but fails in its own context (macro body, array bound,
    enum with a fixed underlying type, position in a chain...).  Descend within that context."""
    ctxname = it["k"] + (":" + re.sub(r"V[A-Z]+_\d+", "T", it["head"]) if it.get("head") and
                         it["head"] != "enum " + it["name"] else "")
    cat = ob[1][0] if ob[0] == "proc" else CAT.get(ob[0], ob[0])
    node = failing_node(it, cn) if cn else (item_nodes(it) or [None])[0]
    if node is None:
        return "%s:ctx=%s" % (cat, ctxname), emit_item(it), None, B.support([it]) + [it]

    def mkprobe(n):
        B.pn += 1
        probe = dict(it)
        probe.update(name="VQ_%d" % B.pn, node=n)
        probe.pop("elems", None)
        if it["k"] in ("enum", "chain"):
            probe.update(k="enum", en="vq_%d" % B.pn)
            if it.get("head"):
                probe["head"] = it["head"].replace(it["name"], probe["name"])
        return probe

    def fails(n):
        if it["k"] in ("array", "tmpl"):
            v = E.try_eval(n)
            if v is None or v[0] < 1:
                return None
        probe = mkprobe(n)
        st, db, r = B.runner.run(B.support([probe]) + [probe], B.flavor, B.prelude)
        if st is not None:
            return ("proc", st)
        return B.node_outcome(observe(db, probe)[constants_of(probe)[0][0]], n)

    cur = node
    out = fails(cur)
    if out is None or out[0] == "ok":
        # fine on its own, wrong in company: does another declaration of the same kind leak into it?  (types are
        # uniqued by comparing their expressions; an incomplete comparison makes `int[4*2]` *be* `int[4+2]`)
        got = ob[1] if ob[0] == "wrong" else None
        cands = [x for x in B.items if x is not it and x["k"] == it["k"] and x.get("node") is not None
                 and x.get("el") == it.get("el")]

        def rank(x):
            dtag = shape_difference(x["node"], node)
            near = dtag in ("binop-operator", "unop-operator") or dtag.startswith("cond-operand")
            hint = got is not None and (E.try_eval(x["node"]) or (None,))[0] == got
            return (0 if near else 1, 0 if hint else 1)
        cands.sort(key=rank)
        for partner in cands[:8]:
            pair = [partner, it]
            st, db, r = B.runner.run(B.support(pair) + pair, B.flavor, B.prelude)
            if st is not None:
                continue
            o2 = B.node_outcome(observe(db, it)[constants_of(it)[0][0]], node)
            if o2[0] != "ok":
                key = "%s:crosstalk:ctx=%s:differs=%s" % (cat, ctxname, shape_difference(partner["node"], node))
                return key, emit_item(partner) + "\n" + emit_item(it), node, B.support(pair) + pair
        # not reproducible in isolation: report the item itself, keyed by context + root construct
        return "%s:%s:ctx=%s,not-isolated" % (cat, E.root_sig(node), ctxname), emit_item(it), node, \
            B.support([it]) + [it]
    while True:
        bad = []
        for c in E.children(cur):
            o = fails(c)
            if o is not None and o[0] != "ok":
                bad.append((c, o))
        if not bad:
            break
        same = [x for x in bad if x[1][0] == out[0]]
        cur, out = (same or bad)[0]
    # does the minimal node already fail as a plain enumerator?  then the context is not the point
    mn, mo = B.minimise(cur)
    if mn is not None:
        return B.key_for(mn, mo), "enum VP { vp = %s };" % E.render(mn, 3), mn, B.enum_witness(mn)
    # reduce while the same failure stays: references -> literals of the same value, literals -> plain decimal,
    # root operator -> '+'; what remains is what matters
    def attempt(cand):
        nonlocal cur, out
        if cand is None or E.try_eval(cand) is None:
            return
        o = fails(cand)
        if o is not None and o[0] == out[0]:
            cur, out = cand, o

    def replace_at(n, path, new):
        if not path:
            return new
        c = list(n)
        c[path[0]] = replace_at(n[path[0]], path[1:], new)
        return c

    def leaves(n, path=()):
        if n[0] in ("lit", "ref"):
            yield path, n
        for i, c in enumerate(E.children(n)):
            for x in leaves(c, path + (child_slot(n, i),)):
                yield x

    def plainlit(v):
        lit = ["lit", str(abs(v)), abs(v), "i"]
        if v == E.INT_MIN:
            return ["par", ["bin", "-", ["un", "-", ["lit", str(E.INT_MAX), E.INT_MAX, "i"]], ["lit", "1", 1, "i"]]]
        return lit if v >= 0 else ["par", ["un", "-", lit]]

    # 1. whole operands -> the plain literal of their value
    for i, c in enumerate(E.children(cur)):
        v = E.try_eval(c)
        if v is not None and c[0] != "lit":
            attempt(replace_at(cur, [child_slot(cur, i)], plainlit(v[0])))
    # 2. remaining references -> literals
    for path, lf in list(leaves(cur)):
        if lf[0] == "ref" and node_at(cur, path) is lf:
            attempt(replace_at(cur, list(path), plainlit(lf[3])))
    # 3. remaining literals -> simpler spellings (the simplest one that keeps the failure)
    for path, lf in list(leaves(cur)):
        if lf[0] == "lit" and node_at(cur, path) is lf:
            for red in E.literal_reductions(lf):
                attempt(replace_at(cur, list(path), red))
    if cur[0] == "bin":
        # does the operator matter?  (one of a+b, a-b is always in range)
        for op in ("+", "-"):
            if cur[1] == op:
                break
            before = cur
            attempt(["bin", op, cur[2], cur[3]])
            if cur is not before:
                break
    kinds = sorted({k for c in E.children(cur) for k in ref_kinds(c)})
    lits = sorted({f for c in E.children(cur) for nd in E.subexprs(c) if nd[0] == "lit"
                   for f in E.lit_feats(nd) if f not in ("decimal", "zero", "plain")})
    lits = sorted({("suffix" if f.startswith("suffix=") else f) for f in lits})
    if "sep" in lits:
        lits = ["sep"]          # a digit separator is what matters; the base it sits in does not
    note = ":ctx=" + ctxname + (",operand=" + "+".join(kinds) if kinds else "") + \
        (",lit=" + "+".join(lits) if lits else "")
    pr = mkprobe(cur)
    return B.key_for(cur, out, note), emit_item(pr), cur, B.support([pr]) + [pr]


def shape_difference(a, b):
    """what distinguishes two expression trees, found at the first place they differ (finite alphabet)"""
    while a[0] == "par":
        a = a[1]
    while b[0] == "par":
        b = b[1]
    if a[0] != b[0]:
        return "node-kind"
    k = a[0]
    if k == "lit":
        return "same" if a[2] == b[2] else "literal-value"
    if k == "ref":
        return "same" if a[2] == b[2] else "reference"
    if k in ("un", "bin") and a[1] != b[1]:
        return "unop-operator" if k == "un" else "binop-operator"
    if k == "cast" and (a[1], a[2]) != (b[1], b[2]):
        return "cast-form" if a[2] == b[2] else "cast-type"
    ca, cb = E.children(a), E.children(b)
    for i, (x, y) in enumerate(zip(ca, cb)):
        d = shape_difference(x, y)
        if d != "same":
            return ("cond-operand%d:" % (i + 1) if k == "cond" else "") + d
    return "same"


def node_at(n, path):
    try:
        for sl in path:
            n = n[sl]
    except (IndexError, TypeError):
        return None
    return n


def ref_kinds(n):
    """kinds of named constants a (small) operand consists of; var kinds folded."""
    out = set()
    for nd in E.subexprs(n):
        if nd[0] == "ref":
            out.add("ref-var" if nd[1] in ("const", "constexpr", "sconst") else "ref-" + nd[1])
    return out


def child_slot(n, i):
    return {"un": [2], "cast": [3], "par": [1], "bin": [2, 3], "cond": [1, 2, 3]}[n[0]][i]


def report(B, key, it, cn, witness, ob, minnode, wit_items=None, replay=None):
    res = B.res
    if minnode is not None and minnode[0] == "cast" and minnode[2] not in ("int", "bool") and \
            key.startswith("unevaluated:"):
        # the statement lists "casts"; DESIGN C07 makes giving up on a cast to int/bool a violation and accepts
        # (counts) it for other target types
        res.count("unevaluated_cast_accepted")
        res.features.add("accepted:" + key)
        return
    full = PID + ":" + key
    detail = dict(witness=witness, constant=cn or it["name"], declaration=emit_item(it)[:400])
    if ob and ob[0] == "wrong":
        detail.update(got=ob[1], expected=ob[2] if len(ob) > 2 else None)
    elif ob:
        detail.update(got=str(ob))
    if minnode is not None:
        exp = E.try_eval(minnode)
        detail["witness_expected"] = exp[0] if exp else None
    if wit_items is not None:
        # a self-contained case that shows this failure again: ./check C07 --replay on {"case": <this>}
        detail["replay_case"] = dict(id="w", kind="explicit", items=wit_items, prelude=B.prelude)
    if replay is not None:
        detail["replay_case"] = replay
    res.count("failing_constants")
    res.features.add("failure:" + key)
    res.violation(key, **detail)


# ---------------------------------------------------------------------------
# header generation
# ---------------------------------------------------------------------------

UNDERLYING = [("int", "i", (E.INT_MIN, E.INT_MAX)), ("unsigned", "u", (0, E.INT_MAX)),
              ("long", "l", (E.INT_MIN, E.INT_MAX)), ("short", "i", (-32768, 32767)),
              ("unsigned char", "i", (0, 255)), ("long long", "l", (E.INT_MIN, E.INT_MAX))]


def gen_batch(case):
    """deterministic: case -> items"""
    rng = random.Random("C07:%s" % case["subseed"])
    prof = case.get("profile", {})
    n = case.get("n", 40)
    maxd = prof.get("depth", 6)
    items = []
    refs = []

    def mkgen(extra=()):
        return E.ExprGen(rng, mode="cxx", refs=refs + list(extra), binops=prof.get("binops"),
                         comma=prof.get("comma", True), lit_forms=prof.get("lit_forms"),
                         suffixes=prof.get("suffixes", True))

    def expr(dmax=None):
        d = min(maxd, dmax or rng.choice([2, 3, 3, 4, 4, 5, 5, 6, 6]))
        return mkgen().expr(d)

    forced = list(case.get("forced", []))
    idx = 0
    nvar = 0
    guard = 0
    while len(items) < n and guard < 20 * n:
        guard += 1
        idx += 1
        tight = rng.random() < 0.35
        r = rng.random()
        node = None
        if forced:
            node = forced_pair(mkgen(), rng, forced.pop(), min(maxd, rng.choice([3, 4, 5, 6])))
            if node is None:
                continue
            r = rng.choice([0.3, 0.3, 0.7, 0.95])       # forced shapes go to enum / macro / array
        elif prof.get("vars") and nvar < 6 and r < 0.2:
            nvar += 1
            nd = expr(3)
            v, t = E.evaluate(nd)
            decl = rng.choice(["const int", "constexpr int", "static const int", "static constexpr int"])
            kind = {"const int": "const", "constexpr int": "constexpr", "static const int": "sconst",
                    "static constexpr int": "constexpr"}[decl]
            nm = "vk_%d" % idx
            items.append(dict(k="var", name=nm, node=nd, decl=decl, tight=tight))
            refs.extend([["ref", kind, nm, v, "i", E.P_PRIMARY]] * 3)
            continue
        if r < 0.50:
            nd = node or expr()
            v, t = E.evaluate(nd)
            it = dict(k="enum", name="VE_%d" % idx, en="ve_%d" % idx, node=nd, tight=tight)
            rtyp = "i"
            hr = rng.random()
            if hr < 0.10:
                it["head"] = "enum class " + it["name"]
                it["scoped"] = True
            elif hr < 0.28:
                ty, tt = rng.choice([(ty, tt) for ty, tt, (lo, hi) in UNDERLYING if lo <= v <= hi])
                it["head"] = "enum %s%s : %s" % ("class " if rng.random() < 0.3 else "", it["name"], ty)
                it["scoped"] = "class" in it["head"]
                rtyp = tt
            elif hr < 0.36:
                it["head"] = "enum"
                it["anon"] = True
            items.append(it)
            if it.get("scoped"):
                # a scoped enumerator needs a cast to take part in arithmetic
                sref = ["ref", "scoped", it["name"] + "::" + it["en"], v, "i", E.P_PRIMARY]
                refs.append(["cast", rng.choice(["c", "static"]), "int", sref])
            else:
                refs.append(["ref", "enum", it["en"], v, rtyp, E.P_PRIMARY])
        elif r < 0.64:
            # chain with implicit increments; later elements may use earlier ones of the same chain
            nm = "VC_%d" % idx
            elems = []
            local = []
            prev = None
            for j in range(rng.randint(2, 6)):
                en = "vc_%d_%d" % (idx, j)
                if j > 0 and rng.random() < 0.55 and prev < E.INT_MAX:
                    elems.append([en, None])
                    prev = prev + 1
                elif j == 0 and rng.random() < 0.2:
                    elems.append([en, None])
                    prev = 0
                else:
                    g = mkgen(local * 3)
                    nd = None
                    if j > 0 and rng.random() < 0.4 and abs(prev) < (1 << 30):
                        # the shapes add_element folds: previous + integer
                        nd = ["bin", "+", list(local[-1]), g.number(rng.randint(0, 9))]
                    rv = E.try_eval(nd) if nd else None
                    for _ in range(20):
                        if rv is not None and rv[1] == "i":
                            break
                        nd = g.expr(min(maxd, rng.choice([1, 2, 3, 4])))
                        rv = E.try_eval(nd)
                    else:
                        nd = ["lit", str(j), j, "i"]
                        rv = (j, "i")
                    elems.append([en, nd])
                    prev = rv[0]
                # inside its own enum an enumerator has the type of its initializer: only int-typed initializers
                # are generated here, so in-enum and outside references are both plain int
                local.append(["ref", "enum", en, prev, "i", E.P_PRIMARY])
            items.append(dict(k="chain", name=nm, elems=elems, tight=tight))
            refs.extend(local)
        elif r < 0.84:
            nd = node or expr()
            v, t = E.evaluate(nd)
            wrap = rng.random() < 0.5
            nm = "VM_%d" % idx
            items.append(dict(k="macro", name=nm, node=nd, wrap=wrap, tight=tight))
            refs.append(["ref", "macro", nm, v, t, E.P_PRIMARY if (wrap or E.prec(nd) < 2) else E.prec(nd)])
        else:
            nd = node
            for _ in range(30):
                if nd is not None and E.evaluate(nd)[0] >= 1:
                    break
                nd = expr()
            else:
                continue
            el = rng.choice(["int", "int", "char", "unsigned long", "double", "short"])
            items.append(dict(k="array", name="va_%d" % idx, node=nd, el=el, tight=tight))
    return items


def forced_pair(g, rng, spec, d):
    """an expression whose root is operator P with operator C as its left/right (or, for ?:, i-th) child."""
    P, C, side = spec
    for _ in range(60):
        child = g.expr(max(2, d - 1), force_root=mkforce(C))
        if child is None:
            continue
        if P == "?:":
            ops = [g.expr(rng.randint(1, 2)) for _ in range(3)]
            ops[side] = child
            n = ["cond"] + ops
        elif P in E.UNOPS_SET:
            n = ["un", P[1:], child]
        else:
            other = g.expr(rng.randint(1, 3))
            n = ["bin", P, child, other] if side == 0 else ["bin", P, other, child]
        if E.try_eval(n) is not None:
            return n
        if P not in ("?:",) and P not in E.UNOPS_SET:
            lv = E.try_eval(child)
            if side == 0 and lv:
                for _ in range(8):
                    n = ["bin", P, child, g._right_for(P, lv[0], 3)]
                    if E.try_eval(n) is not None:
                        return n
    return None


def mkforce(C):
    if C == "?:":
        return ("cond",)
    if C in E.UNOPS_SET:
        return ("un", C[1:])
    return ("bin", C)


# ---------------------------------------------------------------------------
# the unevaluable family
# ---------------------------------------------------------------------------

UNEVAL_PRELUDE = """struct VS { int x; double y; };
class VCls { public: virtual ~VCls(); int q[5]; };
constexpr int vcf(int a) { return a * 2 + 1; }
extern int vgv;
"""
UNEVAL_KINDS = [("sizeof-class", "sizeof(VS)"), ("sizeof-polymorphic", "sizeof(VCls)"), ("sizeof-builtin", "sizeof(long)"),
                ("sizeof-expr", "sizeof vgv"), ("alignof", "alignof(VS)"), ("constexpr-call", "vcf(3)"),
                ("float-cast", "(int)(2.5 * 3)"), ("char-cast", "(char)65")]
UNEVAL_WRAPS = [("bare", "%s"), ("x+n", "%s + 1"), ("n*x", "2 * %s"), ("-x", "-%s"), ("x>n", "%s > 0"),
                ("x||n", "%s || 5"), ("x||0", "%s || 0"), ("n||x", "1 || %s"), ("0||x", "0 || %s"),
                ("x&&0", "%s && 0"), ("x&&n", "%s && 3"), ("0&&x", "0 && %s"),
                ("n?n:x", "1 ? 2 : %s"), ("n?x:n", "0 ? %s : 7"), ("x?n:n", "%s ? 4 : 5"), ("(x)", "(%s)"),
                ("x,n", "(%s, 9)"), ("!x", "!%s"), ("x==x", "%s == %s")]
UNEVAL_MACROS = [("float", "1.5"), ("float-div", "(3 / 2.0)"), ("string", '"str"'), ("address", "(&vgv)"),
                 ("float-exp", "1e3"), ("float-suffix", "2.0f")]


def gen_uneval(case):
    rng = random.Random("C07u:%s" % case["subseed"])
    items = []
    i = 0
    combos = [(k, w) for k in UNEVAL_KINDS for w in UNEVAL_WRAPS]
    rng.shuffle(combos)
    for (kind, ktext), (wrap, wtext) in combos[:case.get("n", 60)]:
        i += 1
        text = wtext.replace("%s", ktext)
        ctx = rng.choice(["enum", "enum", "macro", "array"])
        if ctx == "enum":
            items.append(dict(k="enum", name="VU_%d" % i, en="vu_%d" % i, text=text, ukind=kind, uwrap=wrap))
        elif ctx == "macro":
            items.append(dict(k="macro", name="VUM_%d" % i, text="(" + text + ")", ukind=kind, uwrap=wrap))
        else:
            items.append(dict(k="array", name="vua_%d" % i, text="(%s) * 0 + %d" % (text, rng.randint(1, 9)),
                              ukind=kind, uwrap=wrap + "*0+n"))
    return items


# ---------------------------------------------------------------------------
# the cross-talk family: several constant expressions of the same operand shape in ONE translation unit
# ---------------------------------------------------------------------------

XT_PRELUDE = "template<int N> struct XT { int v[N]; };\n"


def gen_xtalk(case):
    """groups of declarations whose expressions differ only in an operator (or in operand order / one operand), as array
    bounds, template arguments and default arguments.  Types (and functions) are uniqued by comparing the expressions
    they contain, so a value can leak from one declaration into another; evaluated in isolation each is right."""
    rng = random.Random("C07x:%s" % case["subseed"])
    L = lambda v: ["lit", str(v), v, "i"]
    items = []
    n = [0]

    def add(ctx, node):
        v = E.try_eval(node)
        if v is None or (ctx in ("array", "tmpl") and not (1 <= v[0] <= 4096)):
            return
        n[0] += 1
        if ctx == "array":
            items.append(dict(k="array", name="xa_%d" % n[0], node=node, el=el[0]))
        elif ctx == "tmpl":
            items.append(dict(k="tmpl", name="xt_%d" % n[0], node=node))
        elif ctx == "defarg":
            items.append(dict(k="defarg", name="xf_%d" % n[0], node=node))
        else:
            items.append(dict(k="enum", name="XE_%d" % n[0], en="xe_%d" % n[0], node=node))

    el = ["int"]
    for g in range(case.get("groups", 10)):
        el[0] = rng.choice(["int", "int", "char", "double"])     # one element type per group: same type, same bound shape
        ctx = rng.choice(["array", "array", "tmpl", "defarg", "enum"])
        kind = rng.choice(["bin", "bin", "bin", "swap", "un", "cond", "nested", "cast"])
        a, b, c = rng.randint(2, 9), rng.randint(1, 5), rng.randint(2, 6)
        variants = []
        if kind == "bin":
            ops = [o for o in E.BINOPS if o != ","]
            rng.shuffle(ops)
            variants = [["bin", o, L(a), L(b)] for o in ops[:rng.randint(3, 6)]]
        elif kind == "swap":
            o = rng.choice(["-", "<<", "/", "%", ">>", "<", ">"])
            big = a + b + 8
            variants = [["bin", o, L(big), L(b)], ["bin", o, L(b), L(big)], ["bin", "+", L(big), L(b)]]
        elif kind == "un":
            x = ["par", ["un", "-", L(a)]]
            variants = [["un", "-", x], ["un", "~", x], ["un", "!", ["un", "!", x]], ["un", "+", ["un", "-", x]]]
        elif kind == "cond":
            variants = [["cond", L(0), L(a), L(b)], ["cond", L(0), L(a), L(b + 1)], ["cond", L(1), L(a), L(b)],
                        ["cond", L(0), L(a + 1), L(b)], ["cond", L(1), L(a + 1), L(b)]]
        elif kind == "nested":
            o1, o2, o3 = rng.sample(["+", "*", "-", "|", "<<"], 3)
            variants = [["bin", "*", ["par", ["bin", o1, L(a + 5), L(b)]], L(c)],
                        ["bin", "*", ["par", ["bin", o2, L(a + 5), L(b)]], L(c)],
                        ["bin", "+", ["par", ["bin", o1, L(a + 5), L(b)]], L(c)],
                        ["bin", "*", L(c), ["par", ["bin", o3, L(a + 5), L(b)]]]]
        else:
            variants = [["cast", "c", "int", L(a)], ["cast", "static", "int", L(a)], ["cast", "c", "bool", L(a)],
                        ["cast", "c", "int", L(a + 1)], ["cast", "func", "int", L(a)]]
        rng.shuffle(variants)
        for v in variants:
            add(ctx, v)
    # same spelling, different entity: constants / enumerators of one simple name in different classes, namespaces and
    # nested scopes, used as array bounds and template arguments next to each other
    forms = ["static-member", "class-enum", "namespace-const", "shadow", "tmpl-namespace", "tmpl-member", "enum-class"]
    rng.shuffle(forms)
    for form in forms[:case.get("scoped", 4)]:
        n[0] += 1
        g = n[0]
        v1, v2 = rng.sample(range(2, 40), 2)
        nm = rng.choice(["N", "count", "SIZE", "kLen"])
        if form == "static-member":
            dk = rng.choice(["static const int", "static constexpr int"])
            text = "struct XA_%d { %s %s = %d; int values[%s]; };\nstruct XB_%d { %s %s = %d; int values[%s]; };" % (
                g, dk, nm, v1, nm, g, dk, nm, v2, nm)
            consts = [["XA_%d::values" % g, "sizeof(XA_%d::values)/sizeof(int)" % g, v1],
                      ["XB_%d::values" % g, "sizeof(XB_%d::values)/sizeof(int)" % g, v2]]
        elif form == "class-enum":
            text = ("struct XR_%d { enum { %s = %d }; };\nstruct XC_%d { enum { %s = %d }; };\n"
                    "extern int xr_%d[(int)XR_%d::%s];\nextern int xc_%d[(int)XC_%d::%s];" %
                    (g, nm, v1, g, nm, v2, g, g, nm, g, g, nm))
            consts = [["xr_%d" % g, "sizeof(xr_%d)/sizeof(int)" % g, v1], ["xc_%d" % g, "sizeof(xc_%d)/sizeof(int)" % g, v2]]
        elif form == "enum-class":
            text = ("enum class XE_%d { %s = %d };\nenum class XF_%d { %s = %d };\n"
                    "extern int xe_%d[(int)XE_%d::%s];\nextern int xf_%d[static_cast<int>(XF_%d::%s)];" %
                    (g, nm, v1, g, nm, v2, g, g, nm, g, g, nm))
            consts = [["xe_%d" % g, "sizeof(xe_%d)/sizeof(int)" % g, v1], ["xf_%d" % g, "sizeof(xf_%d)/sizeof(int)" % g, v2]]
        elif form == "namespace-const":
            text = ("namespace XN_%d { const int %s = %d; }\nnamespace XM_%d { const int %s = %d; }\n"
                    "extern int xn_%d[XN_%d::%s];\nextern int xm_%d[XM_%d::%s];" % (g, nm, v1, g, nm, v2, g, g, nm, g, g, nm))
            consts = [["xn_%d" % g, "sizeof(xn_%d)/sizeof(int)" % g, v1], ["xm_%d" % g, "sizeof(xm_%d)/sizeof(int)" % g, v2]]
        elif form == "shadow":
            text = ("const int XS_%d = %d;\nstruct XH_%d { static const int XS_%d = %d; int inner[XS_%d]; "
                    "struct In { static const int XS_%d = %d; int deep[XS_%d]; }; };\nextern int xo_%d[XS_%d];" %
                    (g, v1, g, g, v2, g, g, v1 + v2, g, g, g))
            consts = [["XH_%d::inner" % g, "sizeof(XH_%d::inner)/sizeof(int)" % g, v2],
                      ["XH_%d::In::deep" % g, "sizeof(XH_%d::In::deep)/sizeof(int)" % g, v1 + v2],
                      ["xo_%d" % g, "sizeof(xo_%d)/sizeof(int)" % g, v1]]
        elif form == "tmpl-namespace":
            text = ("namespace XN_%d { const int %s = %d; }\nnamespace XM_%d { const int %s = %d; }\n"
                    "extern XT<XN_%d::%s> xtn_%d;\nextern XT<XM_%d::%s> xtm_%d;" % (g, nm, v1, g, nm, v2, g, nm, g, g, nm, g))
            consts = [["xtn_%d" % g, "sizeof(xtn_%d.v)/sizeof(int)" % g, v1], ["xtm_%d" % g, "sizeof(xtm_%d.v)/sizeof(int)" % g, v2]]
        else:
            text = ("struct XP_%d { static constexpr int %s = %d; XT<%s> t; };\n"
                    "struct XQ_%d { static constexpr int %s = %d; XT<%s> t; };" % (g, nm, v1, nm, g, nm, v2, nm))
            consts = [["XP_%d::t" % g, "sizeof(XP_%d::t.v)/sizeof(int)" % g, v1],
                      ["XQ_%d::t" % g, "sizeof(XQ_%d::t.v)/sizeof(int)" % g, v2]]
        items.append(dict(k="scoped", name="xs_%d" % g, form=form, text=text, consts=consts))
    return items


def run_xtalk(ctx, case, res):
    items = case.get("items") or gen_xtalk(case)
    prelude = XT_PRELUDE
    B = judge_batch(ctx, dict(case, kind="batch"), res, items, prelude)
    for it in items:
        if it.get("node") is not None:
            res.features.add("xtalk:%s:%s" % (it["k"], E.root_sig(it["node"])))
    # default arguments: the database's prototype must show an expression of the same value (its text is evaluated by
    # g++ next to the original; text g++ rejects is not judged here)
    fit = [it for it in items if it["k"] == "defarg"]
    if not fit or res.inconclusive:
        return
    st, db, r = B.runner.run([x for x in items if x["k"] in ("defarg",)], "asan", prelude)
    if st is not None:
        return
    lines = ["#include <stdio.h>", "int main() {"]
    judged = []
    for it in fit:
        m = re.search(r"\bx\s*=\s*(.*)\)\s*;?\s*$", db["protos"].get(it["name"], ""))
        exp = E.try_eval(it["node"])
        if not m or exp is None:
            res.count("defarg_not_judged")
            continue
        judged.append((it, m.group(1), exp[0]))
    d = B.d
    os.makedirs(d, exist_ok=True)
    vals = {}
    for it, text, exp in judged:
        src = os.path.join(d, "da.cxx")
        open(src, "w").write("#include <stdio.h>\nint main() { printf(\"%%lld %%lld\\n\", (long long)(%s), "
                             "(long long)(%s)); return 0; }\n" % (text, rexpr(it, it["node"], 3)))
        rr = tools.gxx(["-w", "-O0", "-o", os.path.join(d, "da"), src], timeout=120, cwd=d)
        if rr.rc != 0:
            res.count("defarg_text_rejected_by_reference")
            continue
        out = core.run([os.path.join(d, "da")], timeout=20).out.split()
        if len(out) != 2 or int(out[1]) != exp:
            res.count("oracle_disagree")
            continue
        res.count("constants_compared")
        if int(out[0]) == exp:
            res.count("constants_equal")
            res.features.add("ctx:defarg")
            continue
        # wrong on its own, or only in company?
        st1, db1, r1 = B.runner.run([it], B.flavor, prelude)
        alone = re.search(r"\bx\s*=\s*(.*)\)\s*;?\s*$", db1["protos"].get(it["name"], "")) if st1 is None else None
        partner = None
        near = [x for x in fit if x is not it and E.try_eval(x["node"]) and E.try_eval(x["node"])[0] == int(out[0])]
        near.sort(key=lambda x: 0 if shape_difference(x["node"], it["node"]) in
                  ("binop-operator", "unop-operator") or shape_difference(x["node"], it["node"]).startswith("cond")
                  else 1)
        for x in near[:4]:
            st2, db2, r2 = B.runner.run([x, it], B.flavor, prelude)
            m2 = re.search(r"\bx\s*=\s*(.*)\)\s*;?\s*$", db2["protos"].get(it["name"], "")) if st2 is None else None
            if m2 and m2.group(1) == text:
                partner = x
                break
        if alone and alone.group(1) != text and partner is not None:
            key = "wrong-value:crosstalk:ctx=defarg:differs=%s" % shape_difference(partner["node"], it["node"])
            wit = [partner, it]
        elif alone and alone.group(1) != text:
            # right alone, wrong in company, but no single partner reproduces it
            key = "wrong-value:crosstalk:ctx=defarg:differs=partner-not-identified"
            wit = list(fit)
        else:
            key = "wrong-value:%s:ctx=defarg" % E.root_sig(it["node"])
            wit = [it]
        res.count("failing_constants")
        res.features.add("failure:" + key)
        res.violation(key, witness="\n".join(emit_item(x) for x in wit), got=int(out[0]), expected=exp,
                      prototype=db["protos"].get(it["name"]),
                      replay_case=dict(id="w", kind="xtalk", items=wit))
    shutil.rmtree(d, ignore_errors=True)


# ---------------------------------------------------------------------------
# cases
# ---------------------------------------------------------------------------

def run_case(ctx, case):
    res = core.CaseResult()
    kind = case.get("kind", "batch")
    try:
        if kind == "batch":
            items = gen_batch(case)
            judge_batch(ctx, case, res, items)
        elif kind == "explicit":
            judge_batch(ctx, case, res, case["items"], case.get("prelude", ""))
        elif kind == "uneval":
            run_uneval(ctx, case, res)
        elif kind == "xtalk":
            run_xtalk(ctx, case, res)
        else:
            raise core.HarnessError("unknown case kind " + str(kind))
    except Watchdog:
        res.inconclusive = "watchdog"
        res.count("timeouts")
    shutil.rmtree(ctx.casedir(case["id"]), ignore_errors=True)
    return res


def run_uneval(ctx, case, res):
    """expressions interrogate cannot evaluate: unevaluated is fine, a number must be g++'s number.  Each entry is
    run on its own when the joint run is lost (an unevaluable array bound takes the process down; that must not hide
    the others)."""
    items = case.get("items") or gen_uneval(case)
    d = ctx.casedir(case["id"])
    bitems = [dict(k="enum", name="VB_%d" % j, en="vb_%d" % j, text=t, ukind=k, uwrap="bare")
              for j, (k, t) in enumerate(UNEVAL_KINDS)]
    gxx, err = gxx_values(d, "ref", bitems + items, UNEVAL_PRELUDE)
    if gxx is None:
        res.inconclusive = err.split(":")[0]
        res.count("rejected_by_reference")
        res.sample = dict(header=emit_header(items)[:1200], note=err[:300])
        return
    B = Batch(ctx, case, res, items, UNEVAL_PRELUDE)
    runner = B.runner
    # what does the bare construct give?  (unevaluated / the right number / a wrong number)
    bare = {}
    st, db, r = runner.run(bitems, "asan", UNEVAL_PRELUDE)
    if st is None:
        for bi in bitems:
            ob = observe(db, bi)[bi["en"]]
            bare[bi["ukind"]] = "uneval" if ob[0] != "val" else ("right" if ob[1] == gxx[bi["en"]] else "wrong")
    st, db, r = runner.run(items, "asan", UNEVAL_PRELUDE)
    per = {}
    if st is None:
        for it in items:
            per[id(it)] = (None, db)
    else:
        for it in items:
            per[id(it)] = runner.run([it], PROBE_FLAVOR, UNEVAL_PRELUDE)[:2]
    for it in items:
        cn = constants_of(it)[0][0]
        st1, db1 = per[id(it)]
        kind, wrap = it.get("ukind"), it.get("uwrap", "bare")
        b = bare.get(kind)
        if b == "right" and ("||" in wrap or "&&" in wrap):
            # an operand interrogate evaluates correctly: this is an ordinary || / && test, done by the batches
            res.count("unevaluable_skipped_evaluable_operand")
            continue
        res.features.add("uneval:%s:%s:%s" % (kind, wrap, it["k"]))
        res.count("unevaluable_checked")
        if st1 is not None:
            res.count("failing_constants")
            res.features.add("failure:%s:unevaluable:ctx=%s" % (st1[0], it["k"]))
            res.violation("%s:unevaluable:ctx=%s" % (st1[0], it["k"]), witness=UNEVAL_PRELUDE + emit_item(it),
                          got=str(st1), replay_case=dict(id="w", kind="uneval", items=[it]))
            continue
        if cn not in gxx:
            res.count("oracle_missing")
            continue
        ob = observe(db1, it)[cn]
        if ob[0] == "val" and ob[1] != gxx[cn]:
            if b == "uneval" and wrap != "bare":
                key = "wrong-value:unevaluable-operand:wrap=%s" % wrap
            elif b == "right" and wrap != "bare":
                key = "wrong-value:evaluable-operand:kind=%s,wrap=%s" % (kind, wrap)
            else:
                key = "wrong-value:unevaluable:kind=%s" % kind
            report(B, key, it, cn, UNEVAL_PRELUDE + emit_item(it), ("wrong", ob[1], gxx[cn]), None,
                   replay=dict(id="w", kind="uneval", items=[it]))
        elif ob[0] == "val":
            res.count("unevaluable_evaluated_correctly")
        elif ob[0] == "missing":
            report(B, "missing:unevaluable:ctx=%s" % it["k"], it, cn, emit_item(it), ob, None)
        else:
            res.count("unevaluable_reported_unevaluated")
    # float / string / pointer valued macros must not carry an integer
    mitems = [dict(k="macro", name="VUF_%d" % j, text=t, ukind=k) for j, (k, t) in enumerate(UNEVAL_MACROS)]
    st, db, r = runner.run(mitems, "asan", UNEVAL_PRELUDE)
    if st is None:
        for mi in mitems:
            ob = observe(db, mi)[mi["name"]]
            res.count("unevaluable_checked")
            res.features.add("uneval-macro:" + mi["ukind"])
            if ob[0] == "val":
                report(B, "wrong-value:non-integer-macro:kind=%s" % mi["ukind"], mi, mi["name"], emit_item(mi),
                       ("wrong", ob[1], None), None)
    else:
        res.violation("%s:non-integer-macro" % st[0], witness=emit_header(mitems), got=str(st))
    res.sample = dict(header=(UNEVAL_PRELUDE + emit_header(items))[:900])


def all_pairs():
    ops = list(E.BINOPS)
    out = []
    for p in ops:
        for c in ops:
            out.append([p, c, 0])
            out.append([p, c, 1])
    for c in ops:
        for s in (0, 1, 2):
            out.append(["?:", c, s])
        for p in ops:
            pass
    for p in ops:
        out.append([p, "?:", 0])
        out.append([p, "?:", 1])
    for s in (0, 1, 2):
        out.append(["?:", "?:", s])
    for u in E.UNOPS:
        for c in ops + ["?:"]:
            out.append(["u" + u, c, 0])
        for p in ops:
            out.append([p, "u" + u, 0])
            out.append([p, "u" + u, 1])
        for u2 in E.UNOPS:
            out.append(["u" + u, "u" + u2, 0])
    return out


def main(chk):
    chk.rule = ("headers of generated integer constant expressions (all operators of the statement, literals of every "
                "base/suffix/separator/char form, casts, references to earlier enumerators/macros/const variables, "
                "implicit increments) placed as enumerator values, macro bodies and array bounds; every "
                "(parent operator, child operator, side) pair is forced at least once per run; a case is one header "
                "(~40 declarations); distinct = distinct feature signatures (operator pair with side and whether "
                "grouping came from precedence or parentheses, literal form, cast form, reference kind, context) "
                "seen in constants that were conclusively compared and found equal, plus failure keys")
    chk.assumptions = [
        "g++ 12 (-std=gnu++17, x86-64 Linux: 32-bit int, signed char) is the authority for constant values",
        "the Python evaluator of exprgen must agree with g++ or the constant is inconclusive",
        "localisation/minimisation re-runs use the UBSan-only build of the same tree (same sources, faster); the "
        "first run of every header uses the ASan+UBSan build",
        "only expressions whose every operand and intermediate (after the usual arithmetic conversions) fits in int",
    ]
    nb = chk.pick(320, 1000)
    pairs = all_pairs()
    chk.rng.shuffle(pairs)
    cases = []
    per = max(4, (len(pairs) + nb - 1) // nb)          # every pair at least once per run
    for i in range(nb):
        forced = [pairs[(i * per + j) % len(pairs)] for j in range(per)]
        prof = {}
        if i % 8 == 3:
            prof["vars"] = True
        if i % 16 == 5:
            prof["lit_forms"] = ["bin", "hex", "oct"]
        if i % 16 == 9:
            prof["suffixes"] = False
            prof["comma"] = False
        cases.append(dict(id="b%d" % i, kind="batch", subseed=chk.rng.getrandbits(48), n=40, forced=forced,
                          profile=prof))
    for i in range(chk.pick(2, 12)):
        cases.append(dict(id="u%d" % i, kind="uneval", subseed=chk.rng.getrandbits(48), n=chk.pick(40, 80)))
    for i in range(chk.pick(6, 60)):
        cases.append(dict(id="x%d" % i, kind="xtalk", subseed=chk.rng.getrandbits(48), groups=chk.pick(10, 14),
                          scoped=7))
    chk.run_cases(__name__, cases)
    chk.extra["operator_pairs_total"] = len(pairs)
    chk.extra["operator_pair_signatures_seen_equal"] = len([f for f in chk.features if f.startswith("pair:")])
    chk.extra["operator_pairs_forced_seen_equal"] = len({f.replace(":paren", "") for f in chk.features
                                                        if f.startswith("pair:")})
    chk.min_conclusive = max(1, len(cases) // 2)
