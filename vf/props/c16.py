"""C16 — module initialisation registers every library once, base classes first.

Workload: modules of k libraries whose cross-library inheritance graph is any directed graph (exhaustive for
k <= 3, sampled above), x every command-line order of the database files; failing inputs (missing, truncated,
wrong-version database among good ones).  Oracle: a parser of the four emission sites of the generated module file
+ topological-order checker against the generator's graph; cyclic graphs must be reported (cycles that exist in the
graph) and terminate; acyclic modules are additionally built and imported under CPython and every derived class is
instantiated and an inherited method called.
"""
import itertools
import os
import random
import re
import shutil
import sys

from vf import core, tools, genbuild, libbuild
from vf.gen import modgen

LEVEL = "exploration"


def all_graphs(k):
    pairs = [(i, j) for i in range(k) for j in range(k) if i != j]
    for bits in itertools.product([0, 1], repeat=len(pairs)):
        yield [p for p, b in zip(pairs, bits) if b]


def has_cycle(k, edges):
    adj = {i: [j for a, j in edges if a == i] for i in range(k)}
    color = {}

    def dfs(u):
        color[u] = 1
        for v in adj[u]:
            if color.get(v) == 1 or (v not in color and dfs(v)):
                return True
        color[u] = 2
        return False
    return any(i not in color and dfs(i) for i in range(k))


def parse_sites(text):
    sites = {}
    sites["extern_moddef"] = re.findall(r"^extern const struct LibraryDef (\w+)_moddef;", text, re.M)
    sites["extern_register"] = re.findall(r"^extern void Dtool_(\w+)_RegisterTypes\(\);", text, re.M)
    sites["extern_build"] = re.findall(r"^extern void Dtool_(\w+)_BuildInstants\(PyObject \*module\);", text, re.M)
    # the init function is emitted once per supported Python ABI branch (#if PY_MAJOR_VERSION ...); take each block
    calls_reg = re.findall(r"^\s+Dtool_(\w+)_RegisterTypes\(\);", text, re.M)
    calls_build = re.findall(r"^\s+Dtool_(\w+)_BuildInstants\(module\);", text, re.M)
    defs = re.findall(r"const LibraryDef \*defs\[\] = \{([^}]*)\}", text)
    sites["register_blocks"] = calls_reg
    sites["build_blocks"] = calls_build
    sites["defs_blocks"] = [re.findall(r"&(\w+)_moddef", d) for d in defs]
    return sites


def split_blocks(seq, n):
    if n == 0 or len(seq) % n:
        return None
    return [seq[i:i + n] for i in range(0, len(seq), n)]


def gen(case, root):
    td = {tuple(e) for e in case.get("typedef_edges", ())}
    edges = {tuple(e): ("typedef" if tuple(e) in td else "base") for e in case["edges"]}
    libs = modgen.write_module(root, case["k"], edges, chains=bool(case.get("chains")),
                               enum_only=tuple(case.get("enum_only", ())))
    # a typedef of another library's class is a global type of this library only when it is forced
    for (i, j), kind in edges.items():
        if kind == "typedef":
            open(os.path.join(libs[i]["dir"], f"lib{i}_d{j}.N"), "w").write(f"forcetype T{i}_{j}\n")
    return libs


def igate_all(b, root, libs):
    ins = []
    for L in libs:
        incs = ["-I" + x["dir"] for x in libs if x is not L] + ["-S" + os.path.join(root, "sys")]
        r, p = tools.interrogate(b, [os.path.join(L["dir"], h) for h in L["headers"]], L["dir"],
                                 opts=["-python-native", "-string"], name=L["name"], module="mod", incs=incs)
        if r.rc != 0 or r.died():
            return None, r
        ins.append(p["od"])
        L["oc"] = p["oc"]
    return ins, None


def graph_sig(k, edges):
    return f"k={k},edges={len(edges)},{'cyclic' if has_cycle(k, edges) else 'acyclic'}"


def run_case(ctx, case):
    res = core.CaseResult()
    b = core.build("asan")
    root = ctx.casedir(case["id"])
    k = case["k"]
    eo = set(case.get("enum_only", ()))
    # an enum-only library has no classes: edges from or to it are not realised
    edges = [tuple(e) for e in case["edges"] if e[0] not in eo and e[1] not in eo]
    libs = gen(case, root)
    ins, err = igate_all(b, root, libs)
    if ins is None:
        res.inconclusive = "interrogate failed on a generated library: " + err.how()
        shutil.rmtree(root, ignore_errors=True)
        return res
    names = [L["name"] for L in libs]
    cyc = has_cycle(k, edges)
    sig = graph_sig(k, edges)
    deps = {names[i]: {names[j] for a, j in edges if a == i} for i in range(k)}
    mode = case.get("mode", "order")
    if mode == "fail":
        return run_fail(res, b, root, ins, case)
    for perm in case["perms"]:
        out = os.path.join(root, "mod_module.cxx")
        if os.path.exists(out):
            os.remove(out)
        r = core.run_confirm_hang([b.interrogate_module, "-oc", out, "-module", "mod", "-library", "mod",
                                   "-python-native"] + [ins[i] for i in perm], timeout=30, cwd=root)
        res.count("module_runs")
        tag = f"{sig}"
        if r.timed_out:
            res.violation("hang:" + ("cyclic" if cyc else "acyclic"), k=k, edges=edges, perm=perm)
            continue
        if r.died():
            res.violation("module-tool-died:" + r.how() + ":" + ("cyclic" if cyc else "acyclic"), k=k, edges=edges, err=r.err[-600:])
            continue
        if r.rc != 0 or not os.path.exists(out):
            res.violation("module-tool-failed:" + ("cyclic" if cyc else "acyclic"), k=k, edges=edges, rc=r.rc, err=r.err[-400:])
            continue
        text = open(out).read()
        s = parse_sites(text)
        res.features.add(sig)
        # 1. every library exactly once at every site, all sites in the same order
        order = s["extern_moddef"]
        okset = sorted(order) == sorted(names)
        if not okset:
            res.violation("library-set-wrong:extern", k=k, edges=edges, got=order, expected=names)
            continue
        bad_site = None
        for sname in ("extern_register", "extern_build"):
            if s[sname] != order:
                bad_site = sname
        rb = split_blocks(s["register_blocks"], k)
        bb = split_blocks(s["build_blocks"], k)
        if rb is None or bb is None or not rb or not bb or not s["defs_blocks"]:
            bad_site = "init-blocks-missing-or-duplicated"
        else:
            for blk in rb + bb + s["defs_blocks"]:
                if blk != order:
                    bad_site = "init-block-order-or-count"
        res.count("sites_compared", 3 + len(rb or []) + len(bb or []) + len(s["defs_blocks"]))
        if bad_site:
            res.violation("site-mismatch:" + bad_site, k=k, edges=edges, sites={kk: v for kk, v in s.items()})
            continue
        # 2. reported cycles must exist in the model
        reported = []
        for m in re.finditer(r"^\s+(lib\d+(?: -> lib\d+)+)\s*$", r.err, re.M):
            reported.append(m.group(1).split(" -> "))
        cyc_edges = set()
        for c in reported:
            for u, v in zip(c, c[1:]):
                if v not in deps.get(u, ()):
                    res.violation("reported-cycle-has-nonexistent-edge", k=k, edges=edges, cycle=c)
                cyc_edges.add((u, v))
            if c[0] != c[-1]:
                res.violation("reported-cycle-not-closed", k=k, edges=edges, cycle=c)
        if cyc and "Circular dependency" not in r.err:
            res.violation("cycle-not-reported", k=k, edges=edges, order=order)
        if not cyc and "Circular dependency" in r.err:
            res.violation("cycle-reported-on-acyclic-graph", k=k, edges=edges, err=r.err[-300:])
        # 3. topological order: every library after all libraries it depends on, except along reported cycle edges
        pos = {n: i for i, n in enumerate(order)}
        for u in names:
            for v in deps[u]:
                res.count("dependency_edges_checked")
                if pos[v] > pos[u] and (u, v) not in cyc_edges:
                    res.violation("dependency-order:" + ("cyclic" if cyc else "acyclic"), k=k, edges=edges, order=order,
                                  edge=[u, v], perm=perm)
    if case.get("build") and not cyc:
        build_and_import(res, b, root, libs, ins, edges, k)
    if case.get("typedef_edges"):
        res.features.add(sig + ":typedef-edges=" + ("all" if len(case["typedef_edges"]) == len(case["edges"]) else "mixed"))
    res.sample = dict(k=k, edges=edges, perms=len(case["perms"]), cyclic=cyc, chains=bool(case.get("chains")),
                      enum_only=sorted(eo))
    if case.get("chains"):
        res.features.add(sig + ":chains" + (":enum-only-lib" if eo else ""))
    shutil.rmtree(root, ignore_errors=True)
    return res


def build_and_import(res, b, root, libs, ins, edges, k):
    out = os.path.join(root, "mod_module.cxx")
    objs = []
    dirs = [L["dir"] for L in libs] + [os.path.join(root, "sys")]
    for L in libs:
        for src, o in ((L["oc"], L["name"] + "_igate.o"), (os.path.join(L["dir"], L["name"] + ".cxx"), L["name"] + ".o")):
            rc = genbuild.compile_obj(b, src, os.path.join(root, o), dirs=dirs, python=True)
            if rc.rc != 0:
                res.violation("generated-code-does-not-compile", err=rc.err[:600], k=k, edges=edges)
                return
            objs.append(os.path.join(root, o))
    rc = genbuild.compile_obj(b, out, os.path.join(root, "module.o"), dirs=dirs, python=True)
    if rc.rc != 0:
        res.violation("module-file-does-not-compile", err=rc.err[:600], k=k, edges=edges)
        return
    objs.append(os.path.join(root, "module.o"))
    rl = genbuild.link_shared(objs, os.path.join(root, "mod.so"), extra=libbuild.libpython())
    if rl.rc != 0:
        res.violation("module-does-not-link", err=rl.err[:600], k=k, edges=edges)
        return
    lines = ["import sys", "sys.path.insert(0, %r)" % root, "import mod"]
    for L in libs:
        for dname, base, j in L["derived"]:
            lines.append(f"o = mod.{dname}()")
            lines.append(f"assert o.base_id_{j}() == {100 + j}, ('inherited', {dname!r})")
            lines.append(f"assert o.vid() == o.own_id(), ('virtual', {dname!r})")
            lines.append(f"assert isinstance(o, mod.R{j}), ('isinstance', {dname!r})")
        if not L.get("enum_only"):
            lines.append(f"assert mod.R{L['name'][3:]}().vid() == {100 + int(L['name'][3:])}")
    lines.append("print('IMPORT-OK')")
    r = core.run([sys.executable, "-c", "\n".join(lines)], timeout=60)
    res.count("modules_imported")
    res.features.add("imported:" + graph_sig(k, edges))
    if "IMPORT-OK" not in r.out:
        last = (r.err.strip().splitlines() or ["?"])[-1]
        res.violation("import-or-inheritance-failed:" + r.how() + ":" + re.sub(r"\d+", "N", last)[:60], k=k, edges=edges,
                      err=r.err[-600:])


def run_fail(res, b, root, ins, case):
    """a database that fails to load => exit != 0 and no output file"""
    kind = case["fail"]
    bad = os.path.join(root, "bad.in")
    if kind == "missing":
        pass
    elif kind == "truncated":
        data = open(ins[0], "rb").read()
        open(bad, "wb").write(data[:max(10, len(data) * case["cut"] // 100)])
    elif kind == "major":
        data = open(ins[0], "rb").read().split(b"\n")
        data[1] = b"4 0"
        open(bad, "wb").write(b"\n".join(data))
    elif kind == "minor":
        data = open(ins[0], "rb").read().split(b"\n")
        data[1] = b"3 9"
        open(bad, "wb").write(b"\n".join(data))
    lst = list(ins[1:])
    lst.insert(case["pos"] % (len(lst) + 1), bad)
    out = os.path.join(root, "mod_module.cxx")
    r = core.run_confirm_hang([b.interrogate_module, "-oc", out, "-module", "mod", "-library", "mod", "-python-native"] + lst,
                              timeout=30, cwd=root)
    res.count("failing_load_runs")
    res.features.add("fail:" + kind)
    if r.timed_out:
        res.violation("hang:failing-load:" + kind)
    elif r.died():
        res.violation("module-tool-died:" + r.how() + ":failing-load:" + kind, err=r.err[-500:])
    else:
        if r.rc == 0:
            res.violation("exit-0-after-load-failure:" + kind, err=r.err[-300:], pos=case["pos"])
        if os.path.exists(out):
            res.violation("output-left-after-load-failure:" + kind, rc=r.rc)
    res.sample = dict(fail=kind, rc=r.rc)
    shutil.rmtree(root, ignore_errors=True)
    return res


def main(chk):
    chk.rule = ("case = (k, edge set of the cross-library inheritance digraph, list of command-line orders); k<=3 exhaustive "
                "(all labelled digraphs x all permutations), larger k sampled; + failing-load cases; distinct = "
                "(k, |edges|, cyclic?) signatures whose module file was parsed and checked")
    chk.assumptions = ["a cross-library typedef edge is realised by a published typedef made a global type with `forcetype` in a .N file",
                       "shim headers stand in for the Panda3D runtime when modules are built and imported"]
    rng = chk.rng
    cases = []
    cid = 0
    for k in (1, 2, 3):
        for edges in all_graphs(k):
            cid += 1
            cases.append(dict(id=cid, k=k, edges=edges, perms=[list(p) for p in itertools.permutations(range(k))],
                              build=False))
    chk.extra["exhaustive_graphs_k_le_3"] = len(cases)
    # the same graphs with every edge carried by a published (forced) typedef instead of a base class, and mixed
    for k in (2, 3):
        for edges in all_graphs(k):
            if not edges:
                continue
            kinds = [("all", list(edges))]
            if len(edges) >= 2:
                kinds.append(("mixed", [e for e in edges if rng.random() < 0.5] or [edges[0]]))
            for nm, td in kinds:
                if k == 3 and chk.quick() and rng.random() < 0.5:
                    continue
                cid += 1
                cases.append(dict(id=cid, k=k, edges=edges, typedef_edges=td, build=False,
                                  perms=[list(p) for p in itertools.permutations(range(k))]))
    # sampled larger graphs
    for k in (4, 5, 6) if not chk.quick() else (4, 5):
        for n in range(chk.pick(6, 120 if k == 4 else 40)):
            pairs = [(i, j) for i in range(k) for j in range(k) if i != j]
            edges = [p for p in pairs if rng.random() < rng.choice([0.15, 0.3, 0.5])]
            perms = [rng.sample(range(k), k) for _ in range(chk.pick(4, 12))]
            cid += 1
            cases.append(dict(id=cid, k=k, edges=edges, perms=perms, build=False))
    if not chk.quick():
        for edges in all_graphs(4):
            if rng.random() < 0.25:
                cid += 1
                cases.append(dict(id=cid, k=4, edges=edges, perms=[rng.sample(range(4), 4) for _ in range(3)], build=False))
    # three-level cross-library chains and libraries that contribute only enums (no functions at all)
    for n in range(chk.pick(12, 600)):
        k = rng.choice([3, 3, 4])
        pairs = [(i, j) for i in range(k) for j in range(k) if i != j]
        edges = [p for p in pairs if rng.random() < 0.4]
        eo = [rng.randrange(k)] if rng.random() < 0.6 else []
        cid += 1
        cases.append(dict(id=cid, k=k, edges=edges, perms=[list(p) for p in itertools.permutations(range(k))] if k == 3 else
                          [rng.sample(range(k), k) for _ in range(6)], build=False, chains=True, enum_only=eo))
    # built + imported acyclic modules
    nb = 0
    tries = 0
    while nb < chk.pick(5, 40) and tries < 1000:
        tries += 1
        k = rng.choice([2, 3, 3, 4])
        pairs = [(i, j) for i in range(k) for j in range(k) if i != j]
        edges = [p for p in pairs if rng.random() < 0.35]
        if edges and not has_cycle(k, edges):
            cid += 1
            nb += 1
            cases.append(dict(id=cid, k=k, edges=edges, perms=[rng.sample(range(k), k)], build=True))
    for kind in ("missing", "truncated", "major", "minor"):
        for rep in range(chk.pick(2, 10)):
            cid += 1
            cases.append(dict(id=cid, k=3, edges=[(0, 1), (1, 2)], perms=[], mode="fail", fail=kind,
                              cut=rng.choice([5, 30, 60, 95]), pos=rng.randrange(3)))
    chk.run_cases(__name__, cases)
    chk.exhaustive = False
