"""C15 -- the front-end is total: any input ends in a diagnostic, never a crash or hang.

Workload: mutated / hostile inputs (vf/gen/mutgen.py) given to the real ASan+UBSan `parse_file`,
`parse_file -E` and `interrogate -oc -od -oh` as source file, included file, .N command file and -D argument.
Oracle: how the process ended (signal, abort, assert, uncaught exception, ASan report, non-recoverable UBSan
report), a double-confirmed watchdog, and the output-file rule.  Thorough adds libFuzzer (harness/vf_fuzz.cxx);
its artifacts count only when they reproduce on the real asan parse_file in a fresh process.

A violation key is a crash class: C15:<how>:<top in-project frames, no line numbers>.
"""
import base64
import hashlib
import json
import os
import random
import re
import resource
import shutil
import signal
import subprocess
import sys
import time

from vf import core
from vf.gen import mutgen

LEVEL = "exploration"

CXX_DEF = "-D__cplusplus=201703L"
IG_OPTS = [
    ["-c", "-fnames"],
    ["-python-native", "-promiscuous"],
    ["-c", "-fnames", "-promiscuous", "-string", "-refcount", "-assert"],
    ["-python", "-promiscuous", "-unique-names", "-nomangle"],
]

# A parser diagnostic in the format of CPPPreprocessor::error (file:line:[col:] error: ...)
PARSE_ERROR_RE = re.compile(r"^[^\s:][^:\n]*:\d+:(?:\d+:)? error: ", re.M)
ANY_ERROR_RE = re.compile(r"(?:^|\s)error: ", re.M)
WARNING_RE = re.compile(r"(?:^|\s)warning: ", re.M)

# UBSan kinds that the asan flavour builds in *recover* mode (counted, never a verdict)
UBSAN_RECOVERABLE = re.compile(
    r"runtime error: (?:signed integer overflow|shift exponent|left shift of|negation of|"
    r"division of -?\d+ by -1 cannot be represented|[-+\w.]+ is outside the range of representable values)")
UBSAN_LINE = re.compile(r"runtime error: ([^\n]*)")

FRAME_RE = re.compile(r"^\s*#(\d+) 0x[0-9a-f]+ in (.+?) (/[^\s:]+):\d+(?::\d+)?\s*$", re.M)
PROJECT_PATH = re.compile(r"/src/(?:cppparser|interrogate|interrogatedb|dtoolutil|dtoolbase|prc|interrogate_module)/|/cppBison\.")


# ---------------------------------------------------------------------------
# classification of one finished process
# ---------------------------------------------------------------------------

def _fn_name(s):
    """function name of a symbolised frame without its parameter list / template arguments."""
    s = s.strip()
    i = s.find("operator")
    if i >= 0 and (i == 0 or not (s[i - 1].isalnum() or s[i - 1] == "_")):
        rest = s[i + 8:]
        if rest.lstrip().startswith("()"):
            return s[:i] + "operator()"
        j = rest.find("(")
        return (s[:i] + "operator" + (rest[:j] if j >= 0 else rest)).strip()
    out, depth = [], 0
    for ch in s:
        if ch == "<":
            depth += 1
        elif ch == ">":
            depth = max(0, depth - 1)
        elif ch == "(" and depth == 0:
            break
        elif depth == 0:
            out.append(ch)
    name = "".join(out).strip()
    return name.split(" ")[-1] if " " in name else name


def fatal_stack(err):
    """the part of stderr that holds the stack of the event that ended the process: the block after ASan's ERROR
    line, else after the first non-recoverable UBSan report, else the last stack printed (recoverable UBSan
    reports print stacks too and must not be mistaken for the crash site)."""
    i = err.find("ERROR: AddressSanitizer")
    if i < 0:
        for m in UBSAN_LINE.finditer(err):
            if not UBSAN_RECOVERABLE.search(m.group(0)):
                i = m.start()
                break
    if i < 0:
        blocks = list(re.finditer(r"(?:^\s*#\d+ 0x[^\n]*\n)+", err, re.M))
        return blocks[-1].group(0) if blocks else ""
    rest = err[i:]
    m = re.search(r"(?:^\s*#\d+ 0x[^\n]*\n?)+", rest, re.M)
    return m.group(0) if m else ""


# trivial accessors whose caller is the one at fault when they assert
LEAF_HELPERS = {"CPPExpression::Result::as_integer", "CPPExpression::Result::as_real",
                "CPPExpression::Result::as_boolean", "CPPExpression::Result::as_pointer"}


def project_frames(err):
    out = []
    for m in FRAME_RE.finditer(fatal_stack(err)):
        if PROJECT_PATH.search(m.group(3)):
            out.append(_fn_name(m.group(2)))
    return out


def _cycle(fr):
    cnt = {}
    for f in fr:
        cnt[f] = cnt.get(f, 0) + 1
    top = max(cnt.values())
    # a function that is entered once per turn of a cycle whose busiest member is entered three times must still
    # count as part of the cycle wherever the 256-frame window happens to start
    return sorted(f for f, c in cnt.items() if c * 4 >= top and c > 1)


def _classes(funcs):
    return sorted({f.rsplit("::", 1)[0] if "::" in f else f for f in funcs})


def frames_signature(err, how):
    """crash-class signature: the innermost in-project function of the fatal stack (trivial accessors skipped).
    Unbounded recursion: the functions of the cycle; when a single function walks a cyclic structure (several
    walkers of the same class reach the same cycle: get_virtual_funcs, is_default_constructible, ...) its class."""
    fr = project_frames(err)
    if not fr:
        return "?"
    if how.endswith("stack-overflow"):
        cyc = _cycle(fr)
        if len(cyc) == 1:
            return "recursion-in=" + "+".join(_classes(cyc))
        return "recursion=" + ",".join(cyc[:6]) if cyc else fr[0]
    for f in fr:
        if f not in LEAF_HELPERS:
            return f
    return fr[0]


def hang_signature(errs):
    """Where a non-terminating run spends its time, from several stack samples (each sample is the stack ASan
    prints when a run of the same input is aborted after a different amount of CPU time).  A single sample is not
    a stable signature: a loop alternates between its callees.  The signature is the innermost function that is
    on the stack in *every* sample (longest common prefix of the call chains, seen from main); when a trace is so
    deep that the sanitizer truncated it (256 frames) the classes of the recursing functions are used instead."""
    if isinstance(errs, str):
        errs = [errs]
    chains, deep = [], []
    for err in errs:
        fr = project_frames(err)      # innermost first
        if not fr:
            continue
        nframes = len(re.findall(r"^\s*#\d+ 0x", fatal_stack(err), re.M))
        if nframes >= 200 or "main" not in fr:
            cyc = _cycle(fr)
            if cyc:
                deep.extend(cyc)
            continue
        chain = []
        for f in reversed(fr):
            if not chain or chain[-1] != f:
                chain.append(f)
        chains.append(chain)
    if deep:
        return "recursion-in=" + "+".join(_classes(deep)[:4])
    if not chains:
        return "?"
    prefix = chains[0]
    for c in chains[1:]:
        n = 0
        while n < len(prefix) and n < len(c) and prefix[n] == c[n]:
            n += 1
        prefix = prefix[:n]
    return prefix[-1] if prefix else "?"


def ubsan_fatal_kind(err):
    for m in UBSAN_LINE.finditer(err):
        if not UBSAN_RECOVERABLE.search(m.group(0)):
            k = m.group(1)
            k = re.sub(r"0x[0-9a-f]+", "P", k)
            k = re.sub(r"-?\d+", "N", k)
            k = re.sub(r"'(?:struct |class |union |const )*(\w+)[^']*'", r"\1", k)
            k = re.sub(r"'[^']*'", "T", k)
            return re.sub(r"[^A-Za-z]+", "-", k).strip("-")[:60]
    return None


# UBSan's vptr check probes the object's memory through a pipe(); when the tool has run out of file descriptors
# (recursive #include ends that way) the probe fails and UBSan reports "invalid vptr ... <memory cannot be printed>"
# for a perfectly valid std::cerr.  That is the sanitizer's failure, not the tool's.
VPTR_ARTEFACT = re.compile(r"runtime error: (?:cast to virtual base of|member call on|member access within|downcast of) "
                           r"address 0x[0-9a-f]+ which does not point to an object of type [^\n]*\n"
                           r"0x[0-9a-f]+: note: object has invalid vptr\n<memory cannot be printed>")


def classify(r):
    """-> None when the process ended with an ordinary exit, else the `how` string of the crash."""
    err = r.err
    if r.timed_out:
        return "hang"
    if VPTR_ARTEFACT.search(err) and len(UBSAN_LINE.findall(err)) == len(UBSAN_RECOVERABLE.findall(err)) + 1 \
            and "AddressSanitizer" not in err:
        return "sanitizer-artefact"
    m = re.search(r"terminate called after throwing an instance of '([^']+)'", err)
    if m:
        return "uncaught:" + m.group(1)
    if "terminate called without an active exception" in err or "terminate called recursively" in err:
        return "terminate"
    m = re.search(r"Assertion '([^'\n]+)' failed", err)
    if m and "/include/c++/" in err:
        return "glibcxx-assert"
    if re.search(r"Assertion [`'].*' failed", err) or "Assertion failed" in err:
        return "assert"
    k = ubsan_fatal_kind(err)
    if k:
        return "ubsan:" + k
    m = re.search(r"AddressSanitizer: ([\w-]+)", err)
    if m:
        kind = m.group(1)
        if kind == "ABRT":
            return "abort"
        if "hard rss limit" in err or kind in ("requested", "allocation-size-too-big", "out-of-memory"):
            return "asan:alloc-too-big"
        return "asan:" + kind
    if "hard rss limit exhausted" in err:
        return "rss-limit"
    if "AddressSanitizer" in err and "ERROR" in err:
        return "asan:?"
    if r.sig is not None:
        try:
            return "signal:" + signal.Signals(r.sig).name
        except ValueError:
            return "signal:%d" % r.sig
    if r.rc in (134, 139, 136, 132, 135):
        return "signal:rc%d" % r.rc
    return None


def crash_key(r):
    how = classify(r)
    if how is None:
        return None
    return how + ":" + frames_signature(r.err, how)


# ---------------------------------------------------------------------------
# running one input
# ---------------------------------------------------------------------------

_ENV = {"ASAN_OPTIONS": core.SAN_ENV["ASAN_OPTIONS"] + ":hard_rss_limit_mb=6144:malloc_context_size=3"}


def _b64(b):
    return base64.b64encode(b).decode()


def _unb64(s):
    return base64.b64decode(s)


def make_input(target, data=b"", mut="literal", seed="", defines=None, cxx=True, ig=0):
    d = {"t": target, "m": mut, "s": seed, "d": _b64(data), "cxx": bool(cxx), "ig": ig}
    if defines is not None:
        d["D"] = [_b64(x) for x in defines]
    return d


def make_multi_input(tool, files, args, primary, mut, seed="multi", cxx=True, ig=0):
    """several files on one command line (target multi:<tool>).  `files` = [(name, bytes)], `args` = the names in
    command-line order; the content of file number `primary` (the broken one) is stored as the input's data, so
    that minimisation works on it; the other files are stored literally."""
    d = make_input("multi:" + tool, files[primary][1], mut, seed, cxx=cxx, ig=ig)
    d["files"] = [[n.decode(), None if i == primary else _b64(c)] for i, (n, c) in enumerate(files)]
    d["args"] = [a.decode() for a in args]
    return d


INC_MAIN = b"#include \"inc.h\"\nint after_include;\n"
N_MAIN = mutgen.N_MAIN_TEXT      # must parse cleanly, or the .N file is never read (checked by carrier_selfcheck)


def _write(p, data):
    with open(p, "wb") as f:
        f.write(data)


def command_for(b, inp, d):
    """writes the files of `inp` into directory d; -> (argv, expected outputs or None)."""
    t = inp["t"]
    data = _unb64(inp["d"])
    for f in os.listdir(d):
        p = os.path.join(d, f)
        if os.path.isfile(p):
            os.unlink(p)
    kind, _, tool = t.partition(":")
    if kind in ("pf", "pfE", "ig"):
        tool = kind
        _write(os.path.join(d, "main.h"), data)
    elif kind == "inc":
        _write(os.path.join(d, "main.h"), INC_MAIN)
        _write(os.path.join(d, "inc.h"), data)
    elif kind == "nfile":
        tool = "ig"
        _write(os.path.join(d, "main.h"), N_MAIN)
        _write(os.path.join(d, "main.N"), data)
    elif kind == "def":
        _write(os.path.join(d, "main.h"), mutgen.DEFINE_MAIN)
    elif kind == "multi":
        for n, c in inp["files"]:
            _write(os.path.join(d, os.path.basename(n)), data if c is None else _unb64(c))
    else:
        raise core.HarnessError("unknown target " + t)
    defs = [CXX_DEF.encode()] if inp.get("cxx", True) else []
    for x in inp.get("D", []):
        defs.append(b"-D" + _unb64(x))
    outs = None
    srcs = [os.path.basename(a).encode() for a in inp["args"]] if kind == "multi" else [b"main.h"]
    if tool in ("pf", "pfE"):
        argv = [b.parse_file.encode()] + ([b"-E"] if tool == "pfE" else []) + defs + \
               [b"-S" + b.parser_inc.encode()] + srcs
    else:
        outs = {k: os.path.join(d, n) for k, n in (("oc", "out_igate.cxx"), ("od", "out.in"), ("oh", "out.txt"))}
        argv = [b.interrogate.encode(), b"-DCPPPARSER"] + defs + [b"-S" + b.parser_inc.encode(),
                b"-oc", outs["oc"].encode(), b"-od", outs["od"].encode(), b"-oh", outs["oh"].encode(),
                b"-module", b"m", b"-library", b"l"] + [o.encode() for o in IG_OPTS[inp.get("ig", 0) % len(IG_OPTS)]] + \
               srcs
    return argv, outs


CPU_LIMIT_SMALL, CPU_LIMIT_BIG = 6, 6       # seconds of CPU time; the confirming run gets twice that (normal: 0.03 s)
HANG_SAMPLE_AT = (0.25, 0.4, 0.55, 0.7, 0.85, 1.0, 1.15, 1.3)   # CPU seconds at which a confirmed hang is sampled (re-runs) for its signature
WALL_BACKUP = 25                            # x cpu limit: wall-clock backstop (blocked child / overloaded host)


def _cpu_limit_for(inp):
    if inp.get("cpu"):
        return inp["cpu"]     # witnesses of listed hang findings are replayed with a shorter watchdog
    n = len(inp["d"]) * 3 // 4
    return CPU_LIMIT_SMALL if n <= 4096 else CPU_LIMIT_BIG


def _cpu_used(pid):
    try:
        with open("/proc/%d/stat" % pid) as f:
            st = f.read()
        fields = st[st.rindex(")") + 2:].split()
        return (int(fields[11]) + int(fields[12])) / float(os.sysconf("SC_CLK_TCK"))
    except (OSError, ValueError, IndexError):
        return 0.0


def _child_limits():
    # the usual soft limit of a login shell; recursive #include ends when open() fails (the host's limit is 20000,
    # which only makes that slower) and core files are never wanted
    resource.setrlimit(resource.RLIMIT_NOFILE, (1024, 1024))
    resource.setrlimit(resource.RLIMIT_CORE, (0, 0))


def run_cpu(argv, cpu, cwd, capture_out=False):
    """Run a child under a watchdog on its **CPU time** (load on the shared host must not create hangs):
    when the child has used `cpu` seconds it gets SIGABRT, so that ASan (handle_abort=1) prints where it was;
    Result.timed_out is then True.  A wall-clock backstop of WALL_BACKUP*cpu kills a blocked child; that is
    reported as rc=None/timed_out with err "WALL-BACKSTOP" and is treated as inconclusive by the caller."""
    e = dict(os.environ)
    e.update(core.SAN_ENV)
    e.update(_ENV)
    t0 = time.time()
    p = None
    for attempt in range(60):
        try:
            p = subprocess.Popen(argv, stdin=subprocess.DEVNULL, stdout=subprocess.DEVNULL, stderr=subprocess.PIPE,
                                 env=e, cwd=cwd, start_new_session=True, preexec_fn=_child_limits)
            break
        except OSError as ex:
            # the shared build cache may be re-linking the binary right now (another check saw a source change)
            last = ex
            time.sleep(1.0)
    if p is None:
        raise core.HarnessError("cannot start %r: %s" % (argv[0], last))
    timed_out = False
    wall_hit = False
    err = b""
    poll = 0.05
    while True:
        try:
            _, err = p.communicate(timeout=poll)
            break
        except subprocess.TimeoutExpired:
            pass
        poll = min(0.5, poll * 1.5)
        if _cpu_used(p.pid) >= cpu:
            timed_out = True
            try:
                os.kill(p.pid, signal.SIGABRT)
            except OSError:
                pass
            try:
                _, err = p.communicate(timeout=30)
            except subprocess.TimeoutExpired:
                try:
                    os.killpg(p.pid, signal.SIGKILL)
                except OSError:
                    pass
                _, err = p.communicate()
            break
        if time.time() - t0 > WALL_BACKUP * cpu:
            timed_out = wall_hit = True
            try:
                os.killpg(p.pid, signal.SIGKILL)
            except OSError:
                pass
            _, err = p.communicate()
            err = b"WALL-BACKSTOP\n"
            break
    rc = p.returncode
    err = err.decode("utf-8", "replace")
    if len(err) > 400000:
        err = err[:100000] + "\n...\n" + err[-200000:]
    return core.Result(rc, None if timed_out else (-rc if rc is not None and rc < 0 else None), "", err, timed_out,
                       time.time() - t0)


class Outcome:
    __slots__ = ("key", "cls", "r", "detail")

    def __init__(self, key, cls, r, detail=None):
        self.key, self.cls, self.r, self.detail = key, cls, r, detail or {}


def _inp_hash(inp):
    return hashlib.sha1(json.dumps(inp, sort_keys=True).encode()).hexdigest()


def exec_input(b, inp, d, res=None):
    """Run one input on the real binaries and judge it.  -> Outcome (key None = held)."""
    argv, outs = command_for(b, inp, d)
    cpu = _cpu_limit_for(inp)
    r = run_cpu(argv, cpu, d)
    samples = []
    if r.timed_out and "WALL-BACKSTOP" not in r.err:
        # double-confirmed watchdog: only a second run that burns twice the CPU time is a hang
        r = run_cpu(argv, cpu * 2, d)
        if not r.timed_out and res is not None:
            res.count("timeouts_not_confirmed")
        if r.timed_out and "WALL-BACKSTOP" not in r.err:
            # the signature comes from three cheap stack samples at fixed points of the run (independent of the
            # watchdog budget, so that a replay with a shorter watchdog gives the same key)
            for at in HANG_SAMPLE_AT:
                r2 = run_cpu(argv, at, d)
                if r2.timed_out and "WALL-BACKSTOP" not in r2.err:
                    samples.append(r2.err)
    if "WALL-BACKSTOP" in r.err:
        if res is not None:
            res.count("wall_backstop")
        return Outcome(None, "wall-backstop", r)
    if res is not None:
        res.count("runs")
        n = len(UBSAN_LINE.findall(r.err))
        if n:
            res.count("ubsan_reports", n)
            res.count("ubsan_arith_reports", len(UBSAN_RECOVERABLE.findall(r.err)))
        if "AddressSanitizer" in r.err:
            res.count("asan_reports")
        ne = len(ANY_ERROR_RE.findall(r.err))
        if ne:
            res.count("diagnostics_error", ne)
        nw = len(WARNING_RE.findall(r.err))
        if nw:
            res.count("diagnostics_warning", nw)
    how = classify(r)
    if how is not None and how.endswith("stack-overflow") and not project_frames(r.err):
        # ASan sometimes cannot unwind from the guard page ("<empty stack>"); where the overflow hits depends on
        # the layout of the run, so another run usually gives the trace
        for _ in range(3):
            r2 = run_cpu(argv, cpu, d)
            if classify(r2) == how and project_frames(r2.err):
                r = r2
                break
    if how == "sanitizer-artefact":
        if res is not None:
            res.count("sanitizer_artefact_vptr_fd_exhaustion")
        return Outcome(None, "sanitizer-artefact", r)
    if how is not None:
        if how == "hang":
            key = "hang:" + hang_signature(samples or [r.err])
        else:
            key = how + ":" + frames_signature(r.err, how)
        if res is not None:
            res.count("exit_crash")
        return Outcome(key, "crash:" + how.split(":")[0], r)
    if res is not None:
        res.count("exit_status_%d" % r.rc)
    parse_err = bool(PARSE_ERROR_RE.search(r.err))
    if r.rc != 0 and not r.err.strip():
        return Outcome("silent-failure:" + inp["t"].split(":")[-1], "silent-failure", r)
    if parse_err and r.rc == 0:
        return Outcome("output-rule:exit0-after-parse-error:" + ("interrogate" if outs is not None else "parse_file"),
                       "output-rule", r)
    if outs is not None:
        left = sorted(k for k, p in outs.items() if os.path.exists(p))
        if parse_err and left:
            return Outcome("output-rule:outputs-left-after-parse-error:" + ",".join(left), "output-rule", r)
        if r.rc == 0 and len(left) != 3:
            # not part of C15's statement (C19 owns it); observed only
            if res is not None:
                res.count("exit0_with_missing_output")
    if r.rc == 0:
        cls = "exit0+warn" if WARNING_RE.search(r.err) else "exit0"
    else:
        cls = "error-diag" if parse_err else "error-other"
    return Outcome(None, cls, r)


# ---------------------------------------------------------------------------
# minimisation (only for keys that are not listed findings)
# ---------------------------------------------------------------------------

def minimise(b, inp, key, d, budget=160):
    """ddmin over lines, tokens, then bytes of the mutated file (or of the -D list) keeping the same key."""
    tests = [0]
    if key.startswith("hang:"):
        return dict(inp)     # every failing test would cost two watchdog periods

    def same(cand):
        tests[0] += 1
        return exec_input(b, cand, d).key == key

    cur = dict(inp)
    if "D" in cur and cur["t"].startswith("def"):
        ds = core.ddmin(cur["D"], lambda sub: same(dict(cur, D=sub)), max_tests=20)
        cur["D"] = ds
        for i in range(len(cur["D"])):
            chars = list(_unb64(cur["D"][i]))
            def f(sub, i=i):
                dd = list(cur["D"])
                dd[i] = _b64(bytes(sub))
                return same(dict(cur, D=dd))
            chars = core.ddmin(chars, f, max_tests=budget // 2)
            cur["D"][i] = _b64(bytes(chars))
        return cur
    data = _unb64(cur["d"])
    if cur.get("D"):
        if same(dict(cur, D=[])):
            cur["D"] = []
    if not cur.get("cxx", True) or same(dict(cur, cxx=False)):
        cur["cxx"] = False
    for split, join, share in ((lambda x: x.split(b"\n"), b"\n".join, 0.4),
                               (lambda x: [t[1] for t in mutgen.tokenize(x)], b"".join, 0.4),
                               (lambda x: [bytes([c]) for c in x], b"".join, 0.2)):
        if split is not None and len(data) > 0:
            items = split(data)
            if join == b"".join and len(items) > 400:
                continue
            items = core.ddmin(items, lambda sub: same(dict(cur, d=_b64(join(sub)))), max_tests=int(budget * share))
            data = join(items)
            cur["d"] = _b64(data)
    if cur["t"] == "ig":
        for t2 in ("pf",):
            if same(dict(cur, t=t2)):
                cur["t"] = t2
    return cur


# ---------------------------------------------------------------------------
# case generation
# ---------------------------------------------------------------------------

_TARGET_W = [("pf", 30), ("pfE", 14), ("ig", 30), ("inc:pf", 5), ("inc:ig", 4), ("inc:pfE", 3)]


def _pick_target(rng):
    t = rng.choices([x[0] for x in _TARGET_W], [x[1] for x in _TARGET_W])[0]
    return t


def gen_inputs(sub, n, src_root):
    """the n inputs of the random batch with sub-seed `sub` (deterministic for a given tree)."""
    rng = random.Random("C15-batch:%s" % sub)
    corp = mutgen.corpus(src_root)
    out = []
    for _ in range(n):
        r = rng.random()
        cxx = rng.random() < 0.85
        ig = rng.randrange(len(IG_OPTS))
        if r < 0.72:
            m, s, data = mutgen.gen_source(rng, corp)
            out.append(make_input(_pick_target(rng), data, m, s, cxx=cxx, ig=ig))
        elif r < 0.84:
            m, data = mutgen.gen_ifops(rng)
            out.append(make_input(rng.choice(("pf", "pf", "pfE", "ig", "inc:pf")), data, m, "ifops", cxx=cxx, ig=ig))
        elif r < 0.885:
            lab, files, args, prim = mutgen.gen_multi(rng, corp)
            out.append(make_multi_input(rng.choice(("ig", "ig", "pf", "pfE")), files, args, prim, lab, cxx=cxx, ig=ig))
        elif r < 0.93:
            m, data = mutgen.gen_nfile(rng, corp)
            out.append(make_input("nfile", data, m, "nfile", cxx=True, ig=ig))
        else:
            m, defs = mutgen.gen_defines(rng, corp)
            out.append(make_input(rng.choice(("def:pf", "def:pf", "def:pfE", "def:ig")), b"", m, "defines",
                                  defines=defs, cxx=cxx, ig=ig))
    return out


def enum_inputs(tier):
    """deterministic, seed-independent part: every dictionary item alone and in a small context, deep nesting."""
    out = []
    ctx_head = b"struct S { int m; };\nint before;\n"
    for i, w in enumerate(mutgen.LINE_DICT):
        out.append(make_input("pf", w, "enum_line", "dict%d" % i))
        out.append(make_input("pfE", w + b"\n", "enum_line", "dict%d" % i))
        out.append(make_input("ig", ctx_head + w + b"\nint after;\n#endif\n", "enum_line_ctx", "dict%d" % i, ig=i % 2))
    for i, w in enumerate(mutgen.TOKEN_DICT):
        out.append(make_input("pf", w, "enum_tok", "tok%d" % i))
        out.append(make_input("pfE" if i % 2 else "ig", b"int a = " + w + b";\nstruct Q { int q = " + w + b"; " + w +
                              b" };\n", "enum_tok_ctx", "tok%d" % i, ig=(i // 2) % len(IG_OPTS)))
        out.append(make_input("pf", b"#if " + w + b"\n#endif\n#define M " + w + b"\nM\n", "enum_tok_if", "tok%d" % i))
    depths = (16, 64, 1000) if tier != "thorough" else (16, 64, 100, 1000)
    rng = random.Random("C15-nest")
    for k in mutgen.NEST_KINDS:
        for n in depths:
            if k in ("base_chain", "arrays", "macro_chain"):
                # three polynomial blow-ups: the class-trait walkers are ~cubic in the length of an inheritance
                # chain (10 min at 1000), CPPType::new_type compares nested array types recursively (cubic, minutes
                # for int x[1]...[1] x1000) and expand_manifests re-expands a chain of object-like macros with a
                # copied ignore set (super-quadratic).  They are slow but they terminate, and where a watchdog
                # catches them differs from run to run, so they are observed only up to a depth that finishes.
                n = min(n, 100)
            data = mutgen.gen_nesting(rng, k, n)
            tg = ("pf", "pfE", "ig", "inc:pf") if tier == "thorough" else (("pf", "ig") if n != 64 else ("pfE", "inc:pf"))
            for t in tg:
                out.append(make_input(t, data, "nest_%s_%d" % (k, n), "nest", ig=1 if n == 1000 else 0))
    # every sequence of up to four push_macro / pop_macro / #define / #undef operations on one name, then uses of it
    for i, (lab, data) in enumerate(mutgen.pp_sequence_files()):
        for t in (("pf", "pfE", "ig") if tier == "thorough" else (("pf",) if i % 3 else ("pf", "pfE", "ig"))):
            out.append(make_input(t, data, "enum_ppseq", lab, ig=1))
    # cycles of 2-4 macros x every use that reaches the string-level or the token-level expander
    for i, (lab, data) in enumerate(mutgen.macro_cycle_files()):
        for t in (("pf", "pfE", "ig") if tier == "thorough" else (("pf",) if i % 4 else ("pf", "ig"))):
            out.append(make_input(t, data, "enum_cycle", lab, ig=1, cxx=bool(i % 2)))
    # 2-3 files on one command line, the broken one at every position, every guard kind and include pattern
    for i, (lab, files, args, prim) in enumerate(mutgen.multi_enumeration()):
        for tool in (("ig", "pf", "pfE") if tier == "thorough" else ("ig", "pf")):
            out.append(make_multi_input(tool, files, args, prim, "enum_multi", lab, ig=i % len(IG_OPTS)))
    # cyclic / self-referential declarations: using-directive cycles, classes deriving from themselves through
    # typedefs / forward declarations / templates, self-typed members, alias and initialiser cycles
    for i, (lab, data) in enumerate(mutgen.self_ref_files()):
        for t, ig in ((("pf", 0), ("ig", 1), ("ig", 3), ("ig", 2), ("pfE", 0)) if tier == "thorough" else
                      (("pf", 0), ("ig", 1))):
            out.append(make_input(t, data, "enum_selfref", lab, ig=ig, cxx=True))
    # end of file inside every bracket kind: every token-prefix of bracket-heavy declarations
    for i, (lab, data, fam) in enumerate(mutgen.bracket_prefix_files()):
        tg = ("pf", "pfE", "ig") if tier == "thorough" else (("pf",) if i % 8 else ("pf", "ig"))
        for t in tg:
            out.append(make_input(t, data + (b"" if i % 2 else b"\n"), "enum_prefix", lab, ig=1, cxx=True))
    # .N command files: every command x every hostile operand, one line per file
    for i, (lab, data) in enumerate(mutgen.nfile_enumeration()):
        out.append(make_input("nfile", data, "enum_ncmd", lab, ig=(i % len(IG_OPTS)) if tier == "thorough" else (i % 2)))
    for i, nf in enumerate(mutgen.NFILES):
        out.append(make_input("nfile", nf, "enum_nfile", "nfile%d" % i, ig=i % len(IG_OPTS)))
    # command-line definitions: every head (object-like, function-like, odd) x every hostile body, used from #if,
    # #if NAME(1), #elif, a macro argument and plain text
    for i, (lab, ds) in enumerate(mutgen.def_enumeration()):
        for t in (("def:pf", "def:pfE", "def:ig") if tier == "thorough" else (("def:pf",) if i % 3 else ("def:pf", "def:ig", "def:pfE"))):
            out.append(make_input(t, b"", "enum_defprobe", lab, defines=ds, ig=i % len(IG_OPTS), cxx=bool(i % 2)))
    for i, ds in enumerate(mutgen.DEFINES):
        out.append(make_input("def:pf" if i % 2 else "def:ig", b"", "enum_def", "def%d" % i, defines=ds, ig=i % len(IG_OPTS)))
    for n, data in mutgen.corpus(core.build("asan").src):
        for t in ("pf", "pfE", "ig"):
            out.append(make_input(t, data, "identity", n, ig=1, cxx=not n.endswith(".c")))
    return out


# ---------------------------------------------------------------------------
# the check
# ---------------------------------------------------------------------------

_known = None
_minimised = set()


def _known_open():
    global _known
    if _known is None:
        _known = {f["key"] for f in core.load_findings() if f["property"] == "C15" and f["status"] == "open"}
    return _known


def _printable(b, n=300):
    s = b[:n].decode("latin-1")
    return s.encode("unicode_escape").decode("ascii") + ("..." if len(b) > n else "")


def _report_minimised(res, b, inp, key, d):
    small = minimise(b, inp, key, d)
    o2 = exec_input(b, small, d)
    if o2.key != key:
        small = inp
        o2 = exec_input(b, small, d)
    if o2.key != key:
        res.inconclusive = "violation %s did not reproduce when re-run" % key
        res.count("not_reproduced")
        return
    tail = [l for l in o2.r.err.splitlines() if l.strip()]
    res.violation(key, input=small, target=small["t"], mutator=inp["m"], seed_file=inp["s"],
                  witness=_printable(_unb64(small["d"])),
                  defines=[_printable(_unb64(x)) for x in small.get("D", [])],
                  rc=o2.r.rc, stderr_head="\n".join(tail[:12])[:1500],
                  frames=project_frames(o2.r.err)[:8])


def run_case(ctx, case):
    """case kinds: {"inputs": [literal inputs]} | {"sub": s, "n": n} (generated batch) | {"fuzz": ...} |
    {"minimise": key, "inputs": [one literal input]} (phase 2: minimise and report an unlisted key)."""
    if case.get("fuzz"):
        return run_fuzz_case(ctx, case)
    res = core.CaseResult()
    b = core.build("asan")
    d = ctx.casedir(case.get("id", "x"))
    if "inputs" in case:
        inputs = case["inputs"]
    else:
        inputs = gen_inputs(case["sub"], case["n"], b.src)
    fcache = {}
    if case.get("finding_witness"):
        try:
            with open(os.path.join(ctx.work, "fcache.json")) as fh:
                fcache = json.load(fh)
        except (OSError, ValueError):
            fcache = {}
    for inp in inputs:
        pre = fcache.get(_inp_hash(inp))
        if pre is not None:
            o = Outcome(pre["key"], pre["cls"], core.Result(pre["rc"], None, "", pre["err"], False, 0.0))
            res.count("finding_witness_runs")
        else:
            o = exec_input(b, inp, d, res)
        res.count("inputs")
        mut0 = inp["m"].split("+")[0]
        mut0 = re.sub(r"_\d+$", "", mut0)
        res.features.add("%s|%s|%s" % (inp["t"], mut0, o.cls))
        if case.get("minimise"):
            if o.key is None:
                res.inconclusive = "violation %s did not reproduce when re-run" % case["minimise"]
                res.count("not_reproduced")
            else:
                _report_minimised(res, b, inp, o.key, d)
        elif o.key is not None:
            if "C15:" + o.key in _known_open():
                res.violation(o.key, target=inp["t"], mutator=inp["m"])
            else:
                # phase 1 only records the raw input; main() minimises one input per unlisted key
                res.violation(o.key, raw=True, input=inp)
    if res.sample is None and inputs:
        i0 = inputs[0]
        res.sample = {"target": i0["t"], "mutator": i0["m"], "seed_file": i0["s"],
                      "input": _printable(_unb64(i0["d"]), 200),
                      "defines": [_printable(_unb64(x), 80) for x in i0.get("D", [])]}
    shutil.rmtree(d, ignore_errors=True)
    return res


# ---------------------------------------------------------------------------
# libFuzzer (thorough)
# ---------------------------------------------------------------------------

FUZZ_DICT = None


def fuzz_exe():
    return core.build_harness("vf_fuzz", ["vf_fuzz.cxx"], flavor="fuzz", extra=["-fsanitize=fuzzer"],
                              libs=("cppParser", "dtoolutil", "dtoolbase"))


def write_fuzz_dict(path):
    words = set()
    for w in mutgen.TOKEN_DICT + mutgen.LINE_DICT + mutgen.NFILE_OPERANDS + mutgen.SELF_REF_LOOKUPS + \
            [b"using namespace ", b"typedef ", b"template<class... T> struct ", b"struct X : X", b"namespace A { using namespace B; }"]:
        if 0 < len(w) <= 40:
            words.add(w)
    with open(path, "w") as f:
        for w in sorted(words):
            f.write('"' + "".join("\\x%02x" % c for c in w) + '"\n')


def run_fuzz_case(ctx, case):
    """one libFuzzer process: -runs=N -seed=S over a private copy of the seed corpus.  It stops at the first
    in-process crash; every artifact is replayed on the real asan parse_file in a fresh process."""
    res = core.CaseResult()
    b = core.build("asan")
    exe = fuzz_exe()
    d = ctx.casedir(case["id"])
    cdir = os.path.join(d, "corpus")
    adir = os.path.join(d, "art")
    wdir = os.path.join(d, "w")
    for x in (cdir, adir, wdir):
        os.makedirs(x, exist_ok=True)
    # libFuzzer stops at the first crash, also while it loads the corpus: start only from inputs on which the real
    # binaries survive (the crashing ones are judged by the mutation part of the check anyway)
    d0 = os.path.join(d, "filter")
    os.makedirs(d0, exist_ok=True)

    def survives(data):
        return all(exec_input(b, make_input(t, data, "fuzzseed", "fuzz"), d0).cls in
                   ("exit0", "exit0+warn", "error-diag", "error-other") for t in ("pf", "pfE"))

    _write(os.path.join(wdir, "carrier.h"), N_MAIN)
    nseed = 0
    fam = [x[1] for x in mutgen.self_ref_files()] + [t for _, t in mutgen.BRACKET_SNIPPETS] + \
          [x[1] for x in mutgen.macro_cycle_files()[::6]] + [x[1] for x in mutgen.pp_sequence_files()[::8]]
    fam += [b"#define W(x) x\n#define PROBE " + body + b"\n#if PROBE\n#endif\nint p = PROBE;\n"
            for body in mutgen.DEF_BODIES[::3] if b"\n" not in body]
    rngf = random.Random("C15-fuzzfam:%s" % case["sub"])
    rngf.shuffle(fam)
    for i, data in enumerate(fam[:60]):       # a different third of the structural families per job
        if len(data) <= 4096 and survives(data):
            _write(os.path.join(cdir, "f%03d" % i), data)
            nseed += 1
    ops = list(mutgen.NFILE_OPERANDS)
    rngf.shuffle(ops)
    for i in range(0, 60, 3):                 # .N operands as type lines; sized so that size % 3 == 2
        data = b"\n".join(o for o in ops[i:i + 3] if b"\0" not in o)
        data += b"\n" * ((2 - len(data)) % 3)
        probe = b"".join(b"forcetype " + l + b"\n" for l in data.split(b"\n") if l)
        if exec_input(b, make_input("nfile", probe, "fuzzseed", "fuzz", ig=1), d0).key is None:
            _write(os.path.join(cdir, "n%03d" % i), data)
            nseed += 1
    for i, (n, data) in enumerate(mutgen.corpus(b.src)):
        if len(data) <= 4096 and survives(data):
            _write(os.path.join(cdir, "s%03d" % i), data)
            nseed += 1
    rng = random.Random("C15-fuzzseed:%s" % case["sub"])
    for i in range(24):   # some mutated starters so that jobs diverge early
        m, s, data = mutgen.gen_source(rng, mutgen.corpus(b.src))
        data = data[:4096]
        if survives(data):
            _write(os.path.join(cdir, "m%03d" % i), data)
            nseed += 1
    res.count("fuzz_seed_files", nseed)
    dic = os.path.join(d, "dict.txt")
    write_fuzz_dict(dic)
    # The tool never frees its parse tree, so a long in-process run only measures the allocator: run the job as
    # rounds of 10000 executions over the same (growing) corpus directory, each in a fresh process, and stop at
    # the first round that leaves an artifact.
    env = {"VF_PARSER_INC": b.parser_inc, "VF_FUZZ_DIR": wdir,
           "ASAN_OPTIONS": core.SAN_ENV["ASAN_OPTIONS"].replace("abort_on_error=1", "abort_on_error=0").replace("handle_abort=1", "handle_abort=0")}
    per_round = 10000
    execs = 0
    cov = 0
    rounds = max(1, case["runs"] // per_round)
    r = None
    for rd in range(rounds):
        cmd = [exe, "-runs=%d" % per_round, "-seed=%d" % ((case["sub"] + rd * 7919) % (2 ** 31) + 1), "-max_len=4096",
               "-timeout=25", "-rss_limit_mb=3072", "-malloc_limit_mb=1024", "-dict=" + dic,
               "-artifact_prefix=" + adir + "/", "-close_fd_mask=3", "-print_final_stats=1", "-detect_leaks=0",
               "-len_control=50", "-reload=0", cdir]
        r = core.run(cmd, timeout=case.get("timeout", 900), cwd=wdir, env=env)
        m = re.search(r"stat::number_of_executed_units:\s*(\d+)", r.err)
        if m:
            execs += int(m.group(1))
        else:
            # a crashing round prints no final stats; take the last progress line
            mm = re.findall(r"^#(\d+)\s", r.err, re.M)
            execs += int(mm[-1]) if mm else 0
        mm = re.findall(r"cov: (\d+)", r.err)
        if mm:
            cov = max(cov, int(mm[-1]))
        res.count("fuzz_rounds")
        if os.listdir(adir) or r.timed_out:
            break
        if not m and "libFuzzer" not in r.err and r.rc != 0:
            raise core.HarnessError("vf_fuzz failed: rc=%s %s" % (r.rc, r.err[-1500:]))
    res.count("fuzz_execs", execs)
    res.count("fuzz_jobs")
    res.count("fuzz_cov_edges_sum", cov)
    arts = sorted(os.listdir(adir))
    if r.timed_out:
        res.inconclusive = "libFuzzer job hit the harness watchdog"
    res.features.add("fuzz|libfuzzer|%s" % ("artifact" if arts else "clean"))
    d2 = os.path.join(d, "replay")
    os.makedirs(d2, exist_ok=True)
    for a in arts:
        data = open(os.path.join(adir, a), "rb").read()
        kind = a.split("-")[0]
        res.count("fuzz_artifacts")
        # the harness picks the mode by size: 0 parse_file, 1 preprocess_file, 2 type lines of a .N file
        mode = len(data) % 3
        if mode == 2:
            lines = [l for l in data.split(b"\n") if l and b"\0" not in l]
            ndata = b"".join(c + b" " + l + b"\n" for l in lines for c in (b"forcetype", b"defconstruct Item"))
            inp = make_input("nfile", ndata, "libfuzzer_" + kind, "fuzz", cxx=True, ig=1)
        else:
            inp = make_input("pfE" if mode == 1 else "pf", data, "libfuzzer_" + kind, "fuzz", cxx=True)
        o = exec_input(b, inp, d2, res)
        res.features.add("%s|libfuzzer_%s|%s" % (inp["t"], kind, o.cls))
        if o.key is None:
            res.count("fuzz_artifacts_not_reproduced")
            continue
        res.count("fuzz_artifacts_reproduced")
        full = "C15:" + o.key
        if full in _known_open():
            res.violation(o.key, target=inp["t"], mutator="libfuzzer")
            continue
        res.violation(o.key, raw=True, input=inp)
    res.sample = {"target": "libfuzzer", "execs": execs, "artifacts": len(arts)}
    shutil.rmtree(d, ignore_errors=True)
    return res


def second_phase(chk):
    """violations recorded raw by phase 1: keep the smallest input per unlisted key, minimise it in its own case."""
    raw = [v for v in chk.violations if isinstance(v[1], dict) and v[1].get("raw")]
    if not raw:
        return
    chk.violations = [v for v in chk.violations if not (isinstance(v[1], dict) and v[1].get("raw"))]
    best = {}
    for key, detail, case in raw:
        inp = detail["input"]
        size = len(inp["d"]) + sum(len(x) for x in inp.get("D", []))
        if key not in best or size < best[key][0]:
            best[key] = (size, inp)
    chk.extra["unlisted_keys_phase1"] = {k: sum(1 for v in raw if v[0] == k) for k in sorted(best)}
    cases = []
    for i, key in enumerate(sorted(best)):
        cases.append({"id": "min%d" % i, "minimise": key, "inputs": [best[key][1]]})
    chk.run_cases(__name__, cases[:96])
    for c in cases[96:]:
        chk.report(c["minimise"], {"input": c["inputs"][0], "note": "not minimised (more than 96 unlisted keys)"}, c)


def _prerun(args):
    work, inp = args
    b = core.build("asan")
    d = os.path.join(work, "pre", "%s-%d" % (_inp_hash(inp), os.getpid()))
    os.makedirs(d, exist_ok=True)
    o = exec_input(b, inp, d)
    shutil.rmtree(d, ignore_errors=True)
    return _inp_hash(inp), {"key": o.key, "cls": o.cls, "rc": o.r.rc, "err": o.r.err[-3000:]}


def carrier_selfcheck(b, work):
    """the fixed files around a mutated include / .N file / -D list must be accepted by the tools, or the mutated
    part is never reached (the first .N carrier had a construct the parser rejects: no .N line was ever read)"""
    d = os.path.join(work, "selfcheck")
    os.makedirs(d, exist_ok=True)
    for inp in (make_input("nfile", b"forcetype Item\nrenametype Vec3f LVec3f\n", "selfcheck"),
                make_input("inc:ig", b"int included;\n", "selfcheck"),
                make_input("def:ig", b"", "selfcheck", defines=[b"X=1", b"F(a,b)=a", b"V(...)=1", b"G()=2", b"Y=1"])):
        for ig in range(len(IG_OPTS)):
            o = exec_input(b, dict(inp, ig=ig), d)
            if o.key is None and o.r.rc != 0:
                raise core.HarnessError("carrier file of target %s is rejected by interrogate (%s): %s" %
                                        (inp["t"], " ".join(IG_OPTS[ig]), o.r.err[-600:]))
    shutil.rmtree(d, ignore_errors=True)


def prepare(chk):
    """builds, and runs the witnesses of the listed findings in parallel: ./check replays them one by one in the
    main process, which would serialise ~30 crashing runs and 6 watchdog periods.  run_case() takes the outcome of
    a finding-witness case from this cache (same binaries, same input, seconds ago); without the cache (a replay
    from a fresh process) it simply runs the input."""
    carrier_selfcheck(core.build("asan"), chk.work)
    if not chk.quick():
        fuzz_exe()
    inputs = []
    for f in chk.findings:
        c = f.get("case") or {}
        if c.get("finding_witness"):
            inputs.extend(c.get("inputs", []))
    inputs = list({_inp_hash(i): i for i in inputs}.values())     # variant keys share one witness
    if inputs:
        from concurrent.futures import ProcessPoolExecutor
        with ProcessPoolExecutor(max_workers=core.NPROC) as ex:
            cache = dict(ex.map(_prerun, [(chk.work, i) for i in inputs]))
        with open(os.path.join(chk.work, "fcache.json"), "w") as fh:
            json.dump(cache, fh)


def main(chk):
    chk.rule = ("one evaluation = a batch of inputs run on the real ASan+UBSan binaries; an input is (target, mutator, "
                "bytes): target in {parse_file, parse_file -E, interrogate -oc/-od/-oh (4 option sets), included file, "
                ".N file, -D arguments, 2-3 files on one command line}; distinct = (target, mutator, observed outcome class) triples, outcome class in "
                "{exit0, exit0+warn, error-diag, error-other, crash:<how>, output-rule}; a violation key is "
                "<how>:<innermost in-project function of the fatal stack | functions/classes of the recursion>")
    chk.assumptions = [
        "the ASan+UBSan (-O1, asserts on) build dies on the same inputs as a user's build, or on more (asserts are on "
        "in the repository's default configuration)",
        "recoverable (arithmetic) UBSan reports are counted, not judged; memory growth is not judged",
        "a child that burns 6 s of CPU time, and 12 s again in a confirming run, does not terminate in bounded time "
        "(normal runs use 0.03 s); CPU time, not wall time, so that load on the host cannot create hangs; "
        "RLIMIT_NOFILE=1024 as in a login shell",
        "UBSan's vptr report for std::cerr after the tool ran out of file descriptors is the sanitizer's artefact "
        "(its memory probe needs a pipe); such runs are counted, not judged",
        "inputs are at most 32 kB; nesting depth at most 1000",
        "libFuzzer artifacts count only if the real asan parse_file dies on them in a fresh process",
    ]
    b = core.build("asan")
    cases = []
    en = enum_inputs(chk.tier)
    bs = 24
    for i in range(0, len(en), bs):
        cases.append({"id": "enum%d" % (i // bs), "inputs": en[i:i + bs]})
    nrand = chk.pick(4000, 30000)
    bs = chk.pick(25, 100)
    for k in range(nrand // bs):
        cases.append({"id": "r%d" % k, "sub": chk.rng.getrandbits(48), "n": bs})
    chk.extra["enumerated_inputs"] = len(en)
    chk.extra["random_inputs"] = nrand
    # big cases first would starve nothing: order is irrelevant for verdicts; shuffle for load balance
    chk.rng.shuffle(cases)
    # batches that hold the (listed) endless template instantiations cost three watchdog periods: start them first
    cases.sort(key=lambda c: 0 if any(i["m"] == "enum_selfref" for i in c.get("inputs", [])) else 1)
    if not chk.quick():
        fz = [{"id": "fz%d" % k, "fuzz": True, "sub": chk.rng.getrandbits(31), "runs": 30000} for k in range(16)]
        cases = fz + cases
    chk.run_cases(__name__, cases)
    second_phase(chk)
    # core.Check.finish() reports harness errors only when there is no violation; never lose them
    for e in chk.harness_errors[:5]:
        print("HARNESS-ERROR (C15 case lost):", e.strip()[-600:], file=sys.stderr)
    c = chk.counters
    chk.extra.update(
        asan_reports=c.get("asan_reports", 0), ubsan_arith_reports=c.get("ubsan_arith_reports", 0),
        diagnostics_seen=c.get("diagnostics_error", 0) + c.get("diagnostics_warning", 0),
        exit_statuses={k[len("exit_status_"):]: v for k, v in c.items() if k.startswith("exit_status_")},
        crashed_runs=c.get("exit_crash", 0), inputs=c.get("inputs", 0),
        outcome_classes=sorted({f.split("|")[2] for f in chk.features}),
        targets=sorted({f.split("|")[0] for f in chk.features}),
    )
    chk.min_conclusive = len(cases) // 2
