"""C14 — output is a pure function of the inputs.

Workload: libgen libraries (with equally-ranked overload sets) run repeatedly to the same output paths under
perturbed process conditions: ASLR on/off, environment size, LC_ALL/LC_NUMERIC (incl. a synthesised comma-decimal
locale), TZ, faked wall clock, and a heap-shuffling malloc (random relative order of heap pointers).
Oracle: byte equality of -oc/-od/-oh and of interrogate_module -oc with the unperturbed run; without
SOURCE_DATE_EPOCH equality after masking the file identifier, which must be the same number in code and database.
"""
import hashlib
import os
import random
import re
import shutil

from vf import core, tools, libbuild
from vf.gen import libgen

LEVEL = "exploration"
BACKENDS = {"c": ["-c", "-fnames"], "python": ["-python", "-fnames"], "native": ["-python-native", "-string"],
            "all3": ["-c", "-python", "-python-native", "-fnames", "-string"]}


def make_locale(root):
    """a comma-decimal locale synthesised from C.utf8 (no such locale is installed, no localedef sources)"""
    src = "/usr/lib/locale/C.utf8"
    dst = os.path.join(root, "xx_XX.utf8")
    if os.path.exists(dst):
        return root
    if not os.path.isdir(src):
        return None
    shutil.copytree(src, dst)
    p = os.path.join(dst, "LC_NUMERIC")
    data = bytearray(open(p, "rb").read())
    n = 0
    for off in (0x20, 0x24):
        if off < len(data) and data[off] == ord("."):
            data[off] = ord(",")
            n += 1
    open(p, "wb").write(bytes(data))
    return root if n else None


def preload_path(name="vf_heapshuffle"):
    out = os.path.join(core.CACHE, "preload")
    os.makedirs(out, exist_ok=True)
    so = os.path.join(out, name + ".so")
    src = os.path.join(core.VERIF, "harness", "preload", name + ".c")
    if not os.path.exists(so) or os.path.getmtime(so) < os.path.getmtime(src):
        r = core.run(["gcc", "-O1", "-shared", "-fPIC", "-o", so + ".tmp%d" % os.getpid(), src])
        if r.rc != 0:
            raise core.HarnessError("cannot build vf_heapshuffle.so: " + r.err)
        os.replace(so + ".tmp%d" % os.getpid(), so)
    return so


def prepare(chk):
    core.build("ubsan")
    core.build("plain")
    preload_path()
    preload_path("vf_faketime")
    make_locale(os.path.join(core.CACHE, "locale"))


def one_run(b, d, opts, pert, epoch=True):
    """run interrogate (+ interrogate_module for native) once under perturbation `pert`; return {kind: bytes}"""
    for f in ("liba_igate.cxx", "liba.in", "liba.txt", "mod_module.cxx"):
        try:
            os.remove(os.path.join(d, f))
        except OSError:
            pass
        if pert["kind"] == "stale":
            # an earlier run left a longer file under the same name: it must not show through
            open(os.path.join(d, f), "w").write("/* stale output of an earlier, bigger run */\n" * pert.get("n", 4000))
    env = {"SOURCE_DATE_EPOCH": str(pert.get("epoch", "1000000")) if epoch else None}
    preload = None
    prefix = []
    kind = pert["kind"]
    if kind == "aslr-off":
        prefix = ["setarch", "x86_64", "-R"]
    elif kind == "env":
        env["VF_PADDING"] = "x" * pert["n"]
    elif kind == "locale":
        env["LOCPATH"] = os.path.join(core.CACHE, "locale")
        env["LC_ALL"] = "xx_XX.utf8"
        env["LC_NUMERIC"] = "xx_XX.utf8"
        env["LANG"] = "xx_XX.utf8"
    elif kind == "tz":
        env["TZ"] = pert["tz"]
    elif kind == "heap":
        preload = preload_path()
        env["VF_HEAP_SEED"] = str(pert["seed"])
    elif kind == "mmap0":
        # every allocation served by mmap: glibc hands these addresses out top-down, i.e. in reverse order
        env["MALLOC_MMAP_THRESHOLD_"] = "0"
        env["GLIBC_TUNABLES"] = "glibc.malloc.mmap_threshold=0"
    elif kind == "pwd":
        # $PWD is an alias of the working directory through a symbolic link (what a shell leaves behind after
        # `cd link`), or stale; the outputs are named relative to the working directory
        if pert["pwd"] == "alias":
            link = d.rstrip("/") + "_lnk"
            if not os.path.islink(link):
                os.symlink(d, link)
            env["PWD"] = link
        else:
            env["PWD"] = pert["pwd"]
    elif kind == "time":
        preload = preload_path("vf_faketime")
        env["VF_FAKE_TIME"] = str(pert["t"])
    incs = ["-I" + d, "-S" + os.path.join(d, "sys")]
    cmd = prefix + [b.interrogate] + tools.CPP_DEFS + ["-S" + b.parser_inc] + incs + \
        ["-oc", "liba_igate.cxx", "-od", "liba.in", "-oh", "liba.txt",      # relative: resolved against the cwd (= d)
         "-module", "mod", "-library", "liba"] + opts + [os.path.join(d, "liba.h")]
    r = core.run(cmd, timeout=120, env=env, cwd=d, preload=preload)
    out = {"_rc": r.rc, "_how": r.how(), "_err": r.err[-500:]}
    for k, f in (("oc", "liba_igate.cxx"), ("od", "liba.in"), ("oh", "liba.txt")):
        p = os.path.join(d, f)
        out[k] = open(p, "rb").read() if os.path.exists(p) else None
    if "-python-native" in opts and out["od"] is not None:
        cmd = prefix + [b.interrogate_module, "-oc", os.path.join(d, "mod_module.cxx"), "-module", "mod", "-library", "mod",
                        "-python-native", os.path.join(d, "liba.in")]
        r2 = core.run(cmd, timeout=120, env=env, cwd=d, preload=preload)
        p = os.path.join(d, "mod_module.cxx")
        out["module"] = open(p, "rb").read() if os.path.exists(p) else None
        out["_rc2"] = r2.rc
    return out


def diff_class(a, b):
    la, lb = a.split(b"\n"), b.split(b"\n")
    if sorted(la) == sorted(lb):
        return "reordered-lines"
    if len(la) == len(lb):
        return "changed-lines"
    return "different-length"


def mask_id(data, ident):
    return re.sub(rb"\b" + ident + rb"\b", b"<ID>", data)


def run_memcheck(ctx, case):
    """An uninitialised value that reaches the output is nondeterminism that equal runs on one machine may never
    show (the stack garbage can be the same every time): valgrind memcheck observes the use itself."""
    import re as _re
    res = core.CaseResult()
    b = core.build("plain")
    d = ctx.casedir(case["id"])
    if case.get("files"):
        libgen.write_files(d, case["files"])
    else:
        libgen.generate(random.Random(case["libseed"]), "liba", size=case.get("size", 1.0), ordering=True,
                        n_classes=4, ext=True, opaque=True).write(d)
    opts = BACKENDS[case["backend"]]
    cmd = ["valgrind", "--error-exitcode=77", "-q", b.interrogate] + tools.CPP_DEFS + \
        ["-S" + b.parser_inc, "-I" + d, "-S" + os.path.join(d, "sys"), "-oc", os.path.join(d, "liba_igate.cxx"),
         "-od", os.path.join(d, "liba.in"), "-oh", os.path.join(d, "liba.txt"), "-module", "mod", "-library", "liba"] + \
        opts + [os.path.join(d, "liba.h")]
    r = core.run(cmd, timeout=900, env={"SOURCE_DATE_EPOCH": "1000000"}, cwd=d)
    res.count("memcheck_runs")
    if r.timed_out:
        res.inconclusive = "memcheck timed out"
    elif r.rc == 77 or "uninitialised" in r.err:
        m = _re.search(r"==\d+== (Conditional jump or move depends on uninitialised|Use of uninitialised|Syscall param \S+ points to uninitialised)", r.err)
        frames = _re.findall(r"(?:at|by) 0x[0-9A-F]+: (\w[\w:]*)", r.err)
        proj = [f for f in frames if not f.startswith(("std::", "__", "_IO", "operator"))][:2]
        res.violation("uninitialised-value-used:backend=%s:%s" % (case["backend"], ">".join(proj) or "?"),
                      err=r.err[:1500], replay_case=dict(case, files=libgen.read_files(d)))
    elif r.rc != 0:
        res.inconclusive = "interrogate under valgrind failed: " + r.how()
    else:
        res.features.add(f"{case['backend']}:memcheck")
        if "-python-native" in opts:
            cmd = ["valgrind", "--error-exitcode=77", "-q", b.interrogate_module, "-oc", os.path.join(d, "mod_module.cxx"),
                   "-module", "mod", "-library", "mod", "-python-native", os.path.join(d, "liba.in")]
            r2 = core.run(cmd, timeout=900, env={"SOURCE_DATE_EPOCH": "1000000"}, cwd=d)
            res.count("memcheck_runs")
            if r2.rc == 77 or "uninitialised" in r2.err:
                res.violation("uninitialised-value-used:tool=interrogate_module", err=r2.err[:1500],
                              replay_case=dict(case, files=libgen.read_files(d)))
    res.sample = dict(backend=case["backend"], mode="memcheck")
    shutil.rmtree(d, ignore_errors=True)
    return res


def run_case(ctx, case):
    if case.get("mode") == "memcheck":
        return run_memcheck(ctx, case)
    res = core.CaseResult()
    b = core.build("ubsan")
    d = ctx.casedir(case["id"])
    if case.get("files"):
        libgen.write_files(d, case["files"])
    else:
        libgen.generate(random.Random(case["libseed"]), "liba", size=case.get("size", 1.0), ordering=True,
                        n_classes=4, ext=True, opaque=True).write(d)
    opts = BACKENDS[case["backend"]]
    base = one_run(b, d, opts, dict(kind="none"))
    if base["_rc"] != 0 or base["oc"] is None:
        res.inconclusive = "baseline run failed: " + base["_how"]
        shutil.rmtree(d, ignore_errors=True)
        return res
    res.sample = dict(backend=case["backend"], perts=[p["kind"] for p in case["perts"]],
                      sha_oc=hashlib.sha256(base["oc"]).hexdigest()[:16])
    rc = dict(case, files=libgen.read_files(d))
    for pert in case["perts"]:
        got = one_run(b, d, opts, pert)
        res.count("runs_compared")
        if got["_rc"] != 0:
            res.violation(f"run-failed-under:{pert['kind']}:{got['_how']}", pert=pert, err=got["_err"], replay_case=rc)
            continue
        res.features.add(f"{case['backend']}:{pert['kind']}")
        for k in ("oc", "od", "oh", "module"):
            if k in base and base[k] is not None:
                res.count("files_compared")
                if got.get(k) != base[k]:
                    dc = diff_class(base[k], got.get(k) or b"")
                    res.violation(f"output-differs:file={k},backend={case['backend']},perturbation={pert['kind']},{dc}",
                                  pert=pert, replay_case=dict(rc, perts=[pert]))
    # other SOURCE_DATE_EPOCH values, notably 0: two runs at different (faked) times must be byte-identical
    for ep in case.get("epochs", []):
        t0 = case["noepoch"][0] if case.get("noepoch") else 1500000000
        a = one_run(b, d, opts, dict(kind="time", t=t0, epoch=ep))
        c = one_run(b, d, opts, dict(kind="time", t=t0 + 777, epoch=ep))
        res.count("runs_compared", 2)
        res.features.add(f"{case['backend']}:epoch={'0' if str(ep) == '0' else 'nonzero'}")
        if a["_rc"] != 0 or c["_rc"] != 0:
            res.violation("run-failed-under:epoch:" + a["_how"] + "/" + c["_how"], replay_case=rc)
            continue
        for k in ("oc", "od", "oh", "module"):
            if a.get(k) is not None and a.get(k) != c.get(k):
                res.violation(f"output-differs:file={k},backend={case['backend']},perturbation=time,epoch={'0' if str(ep) == '0' else 'nonzero'}",
                              epoch=ep, replay_case=rc)
        ident = (a["od"] or b"").split(None, 1)[0] if a.get("od") else None
        if ident is not None:
            res.count("identifier_runs")
            if ident != str(ep).encode():
                res.violation(f"identifier-not-epoch:epoch={'0' if str(ep) == '0' else 'nonzero'}", ident=ident.decode(), epoch=ep,
                              replay_case=rc)
    # without SOURCE_DATE_EPOCH: only the identifier may differ, same number in code and database
    if case.get("noepoch"):
        outs = []
        for t in case["noepoch"]:
            o = one_run(b, d, opts, dict(kind="time", t=t), epoch=False)
            if o["_rc"] != 0 or o["od"] is None:
                res.violation("run-failed-under:time:" + o["_how"], replay_case=rc)
                continue
            ident = o["od"].split(None, 1)[0]
            res.count("identifier_runs")
            if ident != str(t).encode():
                res.violation(f"identifier-not-clock:backend={case['backend']}", ident=ident.decode(), t=t, replay_case=rc)
            # the code embeds the identifier only where a module definition is emitted (python-native)
            m = re.search(rb"(\d+),\s*/\* file_identifier \*/", o["oc"])
            if m:
                res.count("identifier_code_vs_db_compared")
                if m.group(1) != ident:
                    res.violation(f"identifier-differs-code-vs-db:backend={case['backend']}", ident=ident.decode(),
                                  code=m.group(1).decode(), replay_case=rc)
            outs.append({k: mask_id(o[k], ident) for k in ("oc", "od", "oh", "module") if o.get(k) is not None})
            res.features.add(f"{case['backend']}:noepoch")
        for o in outs[1:]:
            for k in o:
                if o[k] != outs[0].get(k):
                    res.violation(f"output-differs-beyond-identifier:file={k},backend={case['backend']}", replay_case=rc)
    shutil.rmtree(d, ignore_errors=True)
    return res


def main(chk):
    chk.rule = ("case = (libgen library with equally-ranked overload sets, back-end set); each case = 1 baseline run + one "
                "run per perturbation {aslr-off, env size, comma-decimal locale, TZ, faked clock with SOURCE_DATE_EPOCH set, "
                "heap-shuffle seeds} compared byte-for-byte on -oc/-od/-oh/module file, + 2 runs without SOURCE_DATE_EPOCH "
                "at different faked times; distinct = (back-end, perturbation kind) pairs actually compared")
    chk.assumptions = ["ubsan flavour (LD_PRELOAD-friendly) stands for the tool", "heap shuffling via interposed malloc covers pointer-order dependence; ASLR alone rarely changes relative heap order",
                       "comma-decimal locale synthesised from C.utf8"]
    rng = chk.rng
    nlibs = chk.pick(8, 160)
    nheap = chk.pick(4, 16)
    cases = []
    cid = 0
    for i in range(nlibs):
        libseed = rng.randrange(1 << 30)
        for be in (["c", "native", "python"] if chk.quick() else ["c", "python", "native", "all3"]):
            cid += 1
            perts = [dict(kind="aslr-off"), dict(kind="rerun"), dict(kind="rerun"), dict(kind="stale", n=rng.choice([3000, 6000])),
                     dict(kind="env", n=rng.choice([1000, 30000, 100000])), dict(kind="locale"),
                     dict(kind="tz", tz=rng.choice(["Asia/Tokyo", "America/New_York", "UTC+5"])),
                     dict(kind="time", t=rng.randrange(10 ** 9, 2 * 10 ** 9))]
            perts += [dict(kind="heap", seed=rng.randrange(1, 1 << 30)) for _ in range(nheap)]
            perts += [dict(kind="mmap0"), dict(kind="pwd", pwd="alias"),
                      dict(kind="pwd", pwd=rng.choice(["/", "/nonexistent/dir"]))]
            t1 = rng.randrange(10 ** 9, 2 * 10 ** 9)
            cases.append(dict(id=cid, libseed=libseed, backend=be, perts=perts, size=0.8,
                              noepoch=[t1, t1 + rng.randrange(1, 10 ** 6)], epochs=[0, rng.choice([1, 86400, 1700000000])]))
    for i in range(chk.pick(4, 24)):
        cid += 1
        cases.append(dict(id=cid, mode="memcheck", libseed=rng.randrange(1 << 30), backend=["c", "native", "python", "all3"][i % 4],
                          size=0.8))
    chk.run_cases(__name__, cases)
