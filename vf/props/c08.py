"""C08 — macro expansion yields the token sequence a conforming preprocessor yields.

Observation point: the token stream `parse_file -E` prints (what CPPPreprocessor::get_next_token hands to the
parser), compared token by token, after value normalisation, with `gcc -E -P -std=gnu++20 -x c++` on the same
file and the same -D definitions.  Workload: vf/gen/macrogen.py.

A case is one macro program.  Verdict per program:
  violated      parse_file's token stream differs from gcc's (or parse_file died / emitted a diverging prefix
                before the watchdog fired); each failing use statement is minimised and keyed
  held          streams are equal
  inconclusive  gcc rejected the program, gcc and the independent model disagree (ambiguous input: DR 268,
                white space in stringified expansions, ...), or a watchdog fired without a diverging prefix.
"""
import json
import os
import random
import re

from vf import core
from vf.gen import macrogen as mg

LEVEL = "exploration"

GCC = ["gcc", "-E", "-P", "-std=gnu++20", "-x", "c++", "-undef", "-w"]

# ---------------------------------------------------------------------------
# the one tokenizer used on both outputs
# ---------------------------------------------------------------------------

_ESC = {"n": "\n", "t": "\t", "r": "\r", "a": "\a", "b": "\b", "v": "\v", "f": "\f", "\\": "\\", "'": "'",
        '"': '"', "?": "?"}


def _unescape(body):
    out = []
    i = 0
    n = len(body)
    while i < n:
        c = body[i]
        if c != "\\" or i + 1 >= n:
            out.append(c)
            i += 1
            continue
        d = body[i + 1]
        if d in _ESC:
            out.append(_ESC[d])
            i += 2
        elif d in "01234567":
            j = i + 1
            while j < n and j < i + 4 and body[j] in "01234567":
                j += 1
            out.append(chr(int(body[i + 1:j], 8) & 0xff))
            i = j
        elif d == "x":
            j = i + 2
            while j < n and body[j] in "0123456789abcdefABCDEF":
                j += 1
            out.append(chr(int(body[i + 2:j] or "0", 16) & 0xff))
            i = j
        else:
            out.append(d)
            i += 2
    return "".join(out)


_DIGRAPH = {"<%": "{", "%>": "}", "<:": "[", ":>": "]", "%:": "#", "%:%:": "##"}
# [lex.digraph] lists these next to the digraphs: alternative spellings of the same tokens.  parse_file -E prints the
# primary spelling, gcc -E keeps the one written; a paste that happens to form such a word (`a ## n ## d`) is the same
# token either way
_ALT_TOKEN = {"and": "&&", "or": "||", "not": "!", "bitand": "&", "bitor": "|", "xor": "^", "compl": "~",
              "and_eq": "&=", "or_eq": "|=", "xor_eq": "^=", "not_eq": "!="}
_INT_RE = re.compile(r"(0[xX][0-9a-fA-F]+|0[bB][01]+|[0-9]+)([uUlLzZ]*)$")


def tokenize(text):
    """Lex preprocessor output into (class, value) pairs: integers by value, string and character literals by
    decoded content, identifiers and punctuators by spelling."""
    out = []
    for m in mg.TOK_RE.finditer(text):
        k = m.lastgroup
        s = m.group()
        if k == "ws":
            continue
        if k == "num":
            mm = _INT_RE.match(s)
            if mm:
                d = mm.group(1)
                if d[:2] in ("0x", "0X"):
                    v = int(d[2:], 16)
                elif d[:2] in ("0b", "0B"):
                    v = int(d[2:], 2)
                elif len(d) > 1 and d[0] == "0":
                    try:
                        v = int(d, 8)
                    except ValueError:
                        out.append(("num", s))
                        continue
                else:
                    v = int(d)
                out.append(("int", v))
            else:
                out.append(("num", s))
        elif k == "str":
            out.append(("str", _unescape(s[1:-1])))
        elif k == "chr":
            out.append(("chr", _unescape(s[1:-1])))
        elif k == "id" and s in _ALT_TOKEN:
            out.append(("p", _ALT_TOKEN[s]))
        elif k == "id":
            out.append(("id", s))
        elif s in _DIGRAPH:
            out.append(("p", _DIGRAPH[s]))
        elif s == ".*":
            # gcc -E prints the two tokens '.' '*' without a space; compare '.*' as that pair on both sides
            out.append(("p", "."))
            out.append(("p", "*"))
        else:
            out.append((k, s))
    return out


def model_tokens(toks):
    return tokenize(" ".join(t.s for t in toks))


def show(tokens, limit=60):
    def one(t):
        if t[0] == "str":
            return json.dumps(t[1])
        if t[0] == "chr":
            return "'" + t[1].replace("\\", "\\\\").replace("'", "\\'").replace("\n", "\\n") + "'"
        return str(t[1])
    s = " ".join(one(t) for t in tokens[:limit])
    return s + (" ..." if len(tokens) > limit else "")


# ---------------------------------------------------------------------------
# running the two preprocessors
# ---------------------------------------------------------------------------

_built = {}


def _b():
    if "b" not in _built:
        _built["b"] = core.build("asan")
    return _built["b"]


def prepare(chk):
    _b()


def run_gcc(prog, d):
    p = os.path.join(d, "p.h")
    with open(p, "w") as f:
        f.write(mg.prog_text(prog))
    r = core.run(GCC + ["-D" + x for x in mg.prog_defs(prog)] + [p], timeout=30, cwd=d)
    if r.timed_out:
        return None, "gcc-timeout"
    if r.rc != 0:
        return None, "rejected_by_reference"
    text = "\n".join(l for l in r.out.split("\n") if not l.lstrip().startswith("#"))
    return tokenize(text), None


class Obs(object):
    """what parse_file -E did on one program"""
    __slots__ = ("tokens", "status", "r")


def run_limited(cmd, timeout, max_out, cwd=None):
    """core.run, but the child is killed as soon as it has written more than max_out bytes to stdout (a runaway
    expansion is decided by its diverging output prefix, not by the clock).  -> (Result, truncated)"""
    import select
    import signal
    import subprocess
    import time
    e = dict(os.environ)
    e.update(core.SAN_ENV)
    t0 = time.time()
    errf = open(os.path.join(cwd, "stderr.txt"), "w+b")
    try:
        p = subprocess.Popen(cmd, stdin=subprocess.DEVNULL, stdout=subprocess.PIPE, stderr=errf, env=e, cwd=cwd,
                             start_new_session=True)
    except OSError as ex:
        raise core.HarnessError("cannot start %s: %s" % (cmd[0], ex))
    chunks = []
    size = 0
    truncated = timed_out = False
    fd = p.stdout.fileno()
    while True:
        left = timeout - (time.time() - t0)
        if left <= 0:
            timed_out = True
            break
        rd, _, _ = select.select([fd], [], [], min(left, 1.0))
        if not rd:
            continue
        buf = os.read(fd, 65536)
        if not buf:
            break
        chunks.append(buf)
        size += len(buf)
        if size > max_out:
            truncated = True
            break
    if truncated or timed_out:
        try:
            os.killpg(p.pid, signal.SIGKILL)
        except OSError:
            pass
    p.stdout.close()
    try:
        p.wait(timeout=30)
    except subprocess.TimeoutExpired:
        raise core.HarnessError("child does not die")
    size = errf.seek(0, 2)
    errf.seek(max(0, size - 60000))          # the tail holds the sanitizer report / abort message
    err = errf.read(60000).decode("utf-8", "replace")
    errf.close()
    rc = p.returncode
    sig = -rc if rc is not None and rc < 0 else None
    killed = truncated or timed_out
    r = core.Result(rc if not killed else None, sig if not killed else None,
                    b"".join(chunks).decode("utf-8", "replace"), err, timed_out, time.time() - t0)
    return r, truncated


def run_pf(prog, d, timeout=20, expect_bytes=0):
    p = os.path.join(d, "p.h")
    with open(p, "w") as f:
        f.write(mg.prog_text(prog))
    b = _b()
    r, truncated = run_limited([b.parse_file, "-E"] + ["-D" + x for x in mg.prog_defs(prog)] + [p], timeout,
                               max_out=4096 + 2 * expect_bytes, cwd=d)
    o = Obs()
    o.r = r
    o.tokens = tokenize(r.out)
    if r.timed_out or truncated:
        o.status = "timeout" if r.timed_out else "runaway"
        if o.tokens:
            o.tokens.pop()            # the last one may be cut
    elif r.died():
        o.status = "died"
    elif r.rc != 0:
        o.status = "error-exit"
    else:
        o.status = "ok"
    return o


def judge(prog, d, expected, timeout=20):
    """-> (verdict, obs).  verdict: None (agrees) | 'mismatch' | 'died' | 'error-exit' | 'runaway' (diverging output prefix, killed) |
    'timeout' (inconclusive)"""
    # an output is cut off (runaway expansion) only when it is far longer than the expected one can be printed:
    # every token with a separator, every character of a literal possibly escaped
    o = run_pf(prog, d, timeout, sum(2 * len(str(t[1])) + 4 for t in expected))
    if o.status == "ok":
        return (None if o.tokens == expected else "mismatch"), o
    if o.status in ("timeout", "runaway"):
        if o.tokens != expected[:len(o.tokens)]:
            return "runaway", o       # the prefix already emitted cannot become the expected stream
        return "timeout", o
    if o.status == "died":
        return "died", o
    # ordinary error exit: an error was reported on an input gcc accepts
    return ("error-exit" if o.tokens == expected else "mismatch"), o


# ---------------------------------------------------------------------------
# minimisation and keys
# ---------------------------------------------------------------------------

MAX_MINIMISED = 2        # failing use statements minimised per program (the others are counted)

GENERIC = {"obj", "fn0", "fn1", "fn2", "fn3", "variadic", "arg-multi-tok", "rescan-nested", "va-single",
           "fn-empty-result"}


def _ref(prog):
    """model reference; None when the program is invalid/ambiguous"""
    try:
        toks, feats = mg.reference(prog)
    except (mg.Invalid, mg.Ambiguous):
        return None, None
    except RecursionError:
        return None, None
    return model_tokens(toks), feats


class Minimizer(object):
    """Shrinks a failing program while parse_file keeps failing in the same class (mismatch / runaway / died) and
    the candidate stays inside the unambiguous subset (the model accepts it and its two policies agree).  The
    model is the reference during the search; the final witness is confirmed against gcc by the caller.
    A candidate may not exercise expansion features the starting program did not exercise, so the witness does
    not drift to constructs the generator never produced there (e.g. empty arguments made by deleting tokens)."""

    def __init__(self, d, want, allowed, budget=260):
        self.d = d
        self.want = want          # verdict class to preserve
        self.cat = {"mismatch": "token-mismatch", "error-exit": "token-mismatch", "runaway": "runaway-expansion",
                    "died": "died-asan-stack-overflow"}.get(want, want)
        self.allowed = set(allowed) | GENERIC
        self.tests = 0
        self.budget = budget
        self.cache = {}

    def fails(self, prog, free=False):
        key = json.dumps(prog, sort_keys=True)
        if key in self.cache:
            return self.cache[key]
        res = False
        if self.tests < self.budget:
            exp, feats = _ref(prog)
            if exp is not None and (free or feats <= self.allowed):
                self.tests += 1
                v, _o = judge(prog, self.d, exp, timeout=3)
                res = _same_class(v, self.want)
        self.cache[key] = res
        return res

    # -- passes ---------------------------------------------------------------
    def units(self, prog, keep):
        """ddmin over all units except those in `keep` (indices)"""
        units = prog["units"]
        idx = [i for i in range(len(units)) if i not in keep]

        def build(sub):
            s = set(sub) | set(keep)
            return {"units": [u for i, u in enumerate(units) if i in s]}

        if not idx:
            return prog
        if self.fails(build([])):
            return build([])
        if len(idx) == 1:
            return prog
        best = core.ddmin(idx, lambda sub: self.fails(build(sub)), max_tests=60)
        return build(best)

    @staticmethod
    def split(text):
        """-> list of (ws, tok) pieces"""
        out = []
        ws = ""
        for m in mg.TOK_RE.finditer(text):
            if m.lastgroup == "ws":
                ws += m.group()
            else:
                out.append((ws, m.group()))
                ws = ""
        return out

    @staticmethod
    def join(pieces):
        s = ""
        prev = None
        for ws, t in pieces:
            if prev is not None and not ws and not mg.glue_ok(prev, t):
                ws = " "
            if prev is None:
                ws = ""
            s += ws + t
            prev = t
        return s

    @staticmethod
    def head_of(u):
        """-> (head, body) of a unit's text: the part token-level passes must not touch, and the rest"""
        t = u["t"]
        if u["k"] == "use":
            return "", t
        if u["k"] == "D":
            name, eq, body = t.partition("=")
            return name + "=", body
        if u["k"] == "def":
            m = re.match(r"#define\s+\w+(\([^)]*\))?[ \t]*", t)
            if m:
                return m.group().rstrip() + " ", t[m.end():]
        return None, None

    def with_text(self, prog, ui, text):
        u = dict(prog["units"][ui])
        u["t"] = text
        units = list(prog["units"])
        units[ui] = u
        return {"units": units}

    def shrink_text(self, prog, ui):
        """ddmin over the tokens of one unit"""
        head, text = self.head_of(prog["units"][ui])
        if head is None:
            return prog
        pieces = self.split(text)

        def build(ps):
            return self.with_text(prog, ui, head + self.join(ps))

        norm = [((" " if ws else ""), t) for ws, t in pieces]
        if norm != pieces and self.fails(build(norm)):
            pieces = norm
        if len(pieces) >= 2:
            pieces = core.ddmin(pieces, lambda ps: self.fails(build(ps)), max_tests=70)
        if len(pieces) == 1 and self.fails(build([])):
            pieces = []
        return build(pieces)

    def normalise(self, prog):
        """rewrites that remove incidental features when the failure does not need them"""
        # 1. command-line definitions -> #define at the top of the file
        for ui, u in enumerate(prog["units"]):
            if u["k"] == "D":
                name, eq, body = u["t"].partition("=")
                cand = {"units": [x for i, x in enumerate(prog["units"]) if i != ui]}
                first = max([i for i, x in enumerate(cand["units"]) if x["k"] == "D"] + [-1]) + 1
                cand["units"].insert(first, {"k": "def", "t": "#define " + name + " " + body})
                if self.fails(cand, free=True):
                    return self.normalise(cand)
        # 2. empty arguments -> the identifier a ; 3. variadic -> fixed parameter list
        for ui, u in enumerate(prog["units"]):
            head, text = self.head_of(u)
            if head is None:
                continue
            pieces = self.split(text)
            for i in range(len(pieces) - 1):
                if pieces[i][1] in ("(", ",") and pieces[i + 1][1] in (",", ")"):
                    cand = self.with_text(prog, ui, head + self.join(pieces[:i + 1] + [("", "a")] + pieces[i + 1:]))
                    if self.fails(cand):
                        return self.normalise(cand)
            if u["k"] in ("def", "D") and "..." in head:
                h2 = re.sub(r"\s*,?\s*\.\.\.\s*", "", head, count=1)
                cand = self.with_text(prog, ui, h2 + text)
                if self.fails(cand):
                    return self.normalise(cand)
        return prog

    def simplify(self, prog):
        """replace whole arguments / parenthesised groups / literals by the identifier a"""
        for ui, u in enumerate(prog["units"]):
            head, text = self.head_of(u)
            if head is None:
                continue
            pieces = self.split(text)
            toks = [t for _, t in pieces]
            # matching parens
            stack, groups = [], []
            for i, t in enumerate(toks):
                if t == "(":
                    stack.append(i)
                elif t == ")" and stack:
                    groups.append((stack.pop(), i))
            cands = []
            for a, b in sorted(groups, key=lambda g: g[0] - g[1]):      # larger groups first
                if b - a > 1:
                    cands.append((a, b + 1))                            # the whole group
                # its top-level segments
                depth, start = 0, a + 1
                for i in range(a + 1, b + 1):
                    t = toks[i]
                    if t == "(":
                        depth += 1
                    elif t == ")" and i < b:
                        depth -= 1
                    if (t == "," and depth == 0) or i == b:
                        if i - start > 1 or (i - start == 1 and toks[start] != "a"):
                            cands.append((start, i))
                        start = i + 1
            for i, t in enumerate(toks):
                if t[0] in "\"'" or t[0].isdigit():
                    cands.append((i, i + 1))
            for a, b in cands:
                np_ = pieces[:a] + [(pieces[a][0], "a")] + pieces[b:]
                cand = self.with_text(prog, ui, head + self.join(np_))
                if self.fails(cand):
                    return self.simplify(cand)
        return prog

    def done(self, prog):
        """the witness already has exactly the feature set of a listed finding: shrinking further cannot change
        the key it is reported under"""
        _e, feats = _ref(prog)
        if feats is None:
            return False
        sal = salient(feats)
        return any(sig == sal for c, sig, is_open in known_signatures()
                   if is_open and (c == self.cat or (c in FAMILY and self.cat in FAMILY)))

    def run(self, prog):
        uses = {i for i, u in enumerate(prog["units"]) if u["k"] == "use"}
        keep = uses if len(uses) == 1 else set()
        prog = self.units(prog, keep)
        for _round in range(3):
            before = json.dumps(prog)
            for step in (self.simplify, self.normalise, None):
                if self.done(prog):
                    return prog
                if step is not None:
                    prog = step(prog)
                else:
                    for ui in range(len(prog["units"])):
                        prog = self.shrink_text(prog, ui)
            uses = [i for i, u in enumerate(prog["units"]) if u["k"] == "use"]
            prog = self.units(prog, set(uses) if len(uses) == 1 else set())
            if json.dumps(prog) == before:
                break
        return prog


def _same_class(v, want):
    if v is None or v == "timeout":
        return False
    if want in ("died",):
        return v == "died"
    if want == "runaway":
        return v == "runaway"
    return v in ("mismatch", "error-exit") if want in ("mismatch", "error-exit") else v == want


def salient(feats):
    sal = set(f for f in feats if f not in GENERIC)
    if not sal:
        sal = set(feats) or {"plain-text"}
    return sal


_known = None


def known_signatures():
    """(category, frozenset(features), is_open) of every listed finding; open findings first, then most specific
    first.  A witness whose feature set contains a listed signature is reported under that finding's key; any other
    witness is reported under its full feature set (a new key).  Open findings take precedence over fixed ones: a
    witness that exercises the trigger of a still-open defect (say function-like self-reference) is explained by
    that defect even if it also contains the features of a repaired one; a fixed key is only re-hit by a witness
    that no open finding explains (the stored witnesses of fixed findings are replayed on every run regardless)."""
    global _known
    if _known is None:
        _known = []
        for f in core.load_findings():
            if f.get("property") != "C08":
                continue
            parts = f["key"].split(":")
            cat, sig = ":".join(parts[1:-1]), parts[-1]
            _known.append((cat, frozenset(sig.split("+")), f.get("status") == "open"))
        _known.sort(key=lambda cs: (not cs[2], -len(cs[1]), sorted(cs[1])))
    return _known


# One trigger shows up as wrong tokens, as an endless expansion or as a stack overflow of the recursive
# expander depending on how often the surrounding program repeats it; these three categories share signatures.
FAMILY = ("token-mismatch", "runaway-expansion", "died-asan-stack-overflow")


def make_key(cat, feats):
    sal = salient(feats)
    for want_open in (True, False):
        for c, sig, is_open in known_signatures():
            if is_open == want_open and c == cat and sig <= sal:
                return cat + ":" + "+".join(sorted(sig))
        if cat in FAMILY:
            for c, sig, is_open in known_signatures():
                if is_open == want_open and c in FAMILY and sig <= sal:
                    return c + ":" + "+".join(sorted(sig))
    return cat + ":" + "+".join(sorted(sal))


def diff_kind(exp, got):
    """coarse, finite description of how the streams differ at the first point of divergence"""
    i = 0
    while i < len(exp) and i < len(got) and exp[i] == got[i]:
        i += 1
    if i >= len(got):
        return "missing-tokens"
    if i >= len(exp):
        return "extra-tokens"
    e, g = exp[i], got[i]
    if e[0] == g[0] == "str":
        return "string-content"
    if len(exp) == len(got):
        return "%s-for-%s" % (g[0], e[0])
    return ("extra" if len(got) > len(exp) else "fewer") + "-tokens"


# ---------------------------------------------------------------------------
# one case
# ---------------------------------------------------------------------------

def make_program(case):
    """-> (prog, attempts).  The program is the stored literal one, or is generated from the sub-seed; programs
    the model finds invalid or ambiguous are regenerated (bounded), so that almost every case is conclusive."""
    if case.get("prog") is not None:
        return case["prog"], 0, {}
    last = None
    # the feature flags are a function of the sub-seed alone, so that regenerating a rejected program does not
    # bias the share of programs a flag is on in
    flags = mg.make_flags(random.Random("%s:flags" % case["subseed"]), case.get("forced"))
    for attempt in range(40):
        rng = random.Random("%s:%d" % (case["subseed"], attempt))
        prog = mg.gen_program(rng, flags)
        last = prog
        try:
            mg.reference(prog)
            return prog, attempt, flags
        except (mg.Invalid, mg.Ambiguous, RecursionError):
            continue
    return last, 40, {}


def run_case(ctx, case):
    res = core.CaseResult()
    cid = case.get("id", "x")
    d = ctx.casedir(cid)
    prog, attempts, flags = make_program(case)
    res.count("programs", 1)
    res.count("regenerated", attempts)
    for f, on in flags.items():
        if on:
            res.count("flag:" + f, 1)
    try:
        mtoks, feats = mg.reference(prog)
    except (mg.Invalid, mg.Ambiguous, RecursionError) as ex:
        res.inconclusive = "model: " + type(ex).__name__
        return res
    expected = model_tokens(mtoks)
    gtoks, why = run_gcc(prog, d)
    if gtoks is None:
        res.inconclusive = why
        res.count(why, 1)
        return res
    if gtoks != expected:
        res.inconclusive = "references-disagree"
        res.count("references_disagree", 1)
        if os.environ.get("C08_DEBUG"):
            res.sample = {"disagree": prog, "gcc": show(gtoks), "model": show(expected)}
        return res
    verdict, o = judge(prog, d, expected, timeout=8)
    if verdict == "timeout":
        verdict, o = judge(prog, d, expected, timeout=24)
        if verdict == "timeout":
            res.inconclusive = "watchdog"
            return res
    res.count("tokens_compared", len(expected))
    nuse = sum(1 for u in prog["units"] if u["k"] == "use")
    res.count("use_statements", nuse)
    sig = "+".join(sorted(feats)) or "plain-text"
    res.features.add(sig)
    for f in feats:
        res.count("feat:" + f, 1)
    if case.get("want_sample"):
        res.sample = {"defs": mg.prog_defs(prog), "file": mg.prog_text(prog), "tokens": show(expected, 40),
                      "features": sorted(feats)}
    if verdict is None:
        return res
    res.count("programs_mismatching", 1)
    if case.get("minimal"):
        # stored witness of a listed finding: already minimal, key it as it is
        _report(res, prog, feats, gtoks, verdict, o)
        return res
    _analyse(res, prog, d, verdict, o, expected, ctx.tier)
    return res


def _report(res, small, feats, gt, v2, o2, seen=None):
    if v2 == "died":
        how = o2.r.how().replace(":", "-")
        where = "" if "stack-overflow" in how else "@" + ("/".join(o2.r.frames(2)) or "?").replace(":", ".")
        key = make_key("died-%s%s" % (how, where), feats)
    elif v2 == "error-exit":
        key = make_key("error-exit", feats)
    elif v2 == "runaway":
        key = make_key("runaway-expansion", feats)
    else:
        key = make_key("token-mismatch", feats)
    if seen is not None:
        if key in seen:
            return
        seen.add(key)
    res.violation(key,
                  witness={"defs": mg.prog_defs(small), "file": mg.prog_text(small)},
                  expected=show(gt), got=show(o2.tokens) if v2 != "died" else o2.r.how(),
                  features="+".join(sorted(salient(feats))), diff=diff_kind(gt, o2.tokens), prog=small)


def _analyse(res, prog, d, verdict, o, expected, tier="thorough"):
    """localise to use statements, minimise, key"""
    units = prog["units"]
    uses = [i for i, u in enumerate(units) if u["k"] == "use"]
    failing = []
    if len(uses) > 1:
        for ui in uses:
            sub = {"units": [u for i, u in enumerate(units) if u["k"] != "use" or i == ui]}
            exp, _ = _ref(sub)
            if exp is None:
                continue
            v, _o = judge(sub, d, exp, timeout=10)
            if v is not None and v != "timeout":
                failing.append((sub, v))
    if not failing:
        failing = [(prog, verdict)]
    seen = set()
    done = 0
    for sub, v in failing:
        if done >= (MAX_MINIMISED if tier == "thorough" else 1):
            res.count("mismatches_not_minimised", 1)
            continue
        done += 1
        _e, f0 = _ref(sub)
        mz = Minimizer(d, v, f0 or (), budget=120 if v in ("died", "runaway") else 400)
        if not mz.fails(sub):
            # not reproducible in isolation (should not happen)
            res.count("unreproducible", 1)
            continue
        small = mz.run(sub)
        res.count("minimiser_tests", mz.tests)
        exp, feats = _ref(small)
        # confirm the minimal witness against the authority
        gt, why = run_gcc(small, d)
        if gt is None or gt != exp:
            # the model is not the authority: fall back to the un-minimised sub-program, judged against gcc
            small = sub
            exp, feats = _ref(small)
            gt, why = run_gcc(small, d)
            if gt is None or gt != exp:
                res.count("witness_not_confirmed", 1)
                continue
        v2, o2 = judge(small, d, gt, timeout=10)
        if v2 is None or v2 == "timeout":
            res.count("witness_not_confirmed", 1)
            continue
        _report(res, small, feats, gt, v2, o2, seen)


# ---------------------------------------------------------------------------
# the check
# ---------------------------------------------------------------------------

def main(chk):
    n = int(os.environ.get("C08_PROGRAMS", "0")) or chk.pick(3000, 20000)
    chk.rule = ("one case = one macrogen program (2-8 definitions, 4-12 use statements, optional #undef/redefinition/"
                "push_macro/pop_macro/-D); distinct = distinct SET of expansion features the independent model "
                "observed while expanding it (argument shapes, #, ##, __VA_OPT__, suppression, rescanning, ...); "
                "non-trivial = at least one macro was expanded and gcc accepted the program and agrees with the model")
    chk.assumptions = [
        "gcc 12 -E -P -std=gnu++20 is the authority for the token sequence of a conforming preprocessor",
        "programs on which gcc and the monitor's own ISO C++20 model (both hide-set policies) disagree are ambiguous "
        "and are not judged",
        "parse_file -E prints the tokens CPPPreprocessor::get_next_token hands to the parser; integers are compared by "
        "value and literals by decoded content",
    ]
    base = chk.rng.getrandbits(48)
    cases = []
    for i in range(n):
        forced = [mg.FLAGS[i % len(mg.FLAGS)]] if i % 2 == 0 else []
        cases.append({"id": i, "subseed": "%d:%d" % (base, i), "forced": forced, "want_sample": i < 5})
    chk.run_cases(__name__, cases)
    feats = {k[5:]: v for k, v in chk.counters.items() if k.startswith("feat:")}
    flags = {k[5:]: v for k, v in chk.counters.items() if k.startswith("flag:")}
    for k in list(chk.counters):
        if k.startswith("feat:") or k.startswith("flag:"):
            del chk.counters[k]
    progs = max(1, chk.counters.get("programs", 0))
    chk.extra["programs_with_generator_flag_on"] = dict(sorted(flags.items()))
    chk.extra["generator_flags_below_one_eighth"] = sorted(f for f in mg.FLAGS if flags.get(f, 0) * 8 < progs)
    chk.extra["programs_exercising_feature"] = dict(sorted(feats.items()))
    chk.min_conclusive = n // 2
