"""C19 -- a failed or incomplete output write is reported by a non-zero exit status.

Fault enumeration (DESIGN.md §3 C19).  For every tool x output channel (interrogate -oc/-od/-oh,
interrogate_module -oc) x back-end (-c, -python, -python-native):

  static faults     the output path cannot be opened (missing directory, path through a regular file,
                    target is a directory, open failing with EACCES/EROFS through the injector -- we run as
                    root, so permission bits would not stop the tool) or is /dev/full;
  k-th write        a fault-free run under harness/preload/vf_fault.c records the number n of
                    write(2)/writev(2) calls on the output; then the k-th one fails (ENOSPC / EIO) and so does
                    every later one, or is short and followed by a failure, or fails alone while every later
                    write succeeds again (transient), for every selected k in 1..n;
  close             the close of the output reports an error (deferred write-back error).
  strace (thorough) the same write failure injected by `strace -e inject` on the output path: a syscall-level
                    injector that shares nothing with the preload library (cross-check of the machinery).

Oracle: the fault really happened (INJECTED*/FAILED line in the injector's side log, or a path that cannot
be opened by construction) => exit status != 0.  Runs in which no fault fired are inconclusive.
"""
import fcntl
import hashlib
import os
import random
import shutil
import subprocess

from vf import core
from vf.gen import iogen

LEVEL = "fault_enumeration"

BACKENDS = ["-c", "-python", "-python-native"]
CHANNELS = [("interrogate", "oc"), ("interrogate", "od"), ("interrogate", "oh"), ("interrogate_module", "oc")]
STATIC = ["open-missing-dir", "open-through-file", "open-is-directory", "open-EACCES", "open-EROFS", "devfull"]
# fault kind of the case -> class used in the violation key (errno values are payload, folded away)
FAULT_CLASS = {"open-missing-dir": "open-fail", "open-through-file": "open-fail", "open-is-directory": "open-fail",
               "open-EACCES": "open-fail", "open-EROFS": "open-fail", "devfull": "devfull",
               "write": "write-fail", "short": "short-write", "close": "close-fail", "strace-write": "write-fail",
               "once": "transient-write-fail"}
FLAVOR = "ubsan"        # ASan replaces malloc and dislikes foreign preloads; UBSan does not


# ---------------------------------------------------------------------------
# the injector
# ---------------------------------------------------------------------------

def preload_path():
    """Build harness/preload/vf_fault.c with plain gcc (idempotent, content-hashed, flock-ed)."""
    src = os.path.join(core.VERIF, "harness", "preload", "vf_fault.c")
    outdir = os.path.join(core.CACHE, "harness-" + FLAVOR)
    os.makedirs(outdir, exist_ok=True)
    out = os.path.join(outdir, "libvf_fault.so")
    digest = hashlib.sha256(open(src, "rb").read()).hexdigest()
    stamp = out + ".sha"
    if os.path.exists(out) and os.path.exists(stamp) and open(stamp).read() == digest:
        return out
    lock = open(os.path.join(core.CACHE, ".lock-h-libvf_fault"), "w")
    fcntl.flock(lock, fcntl.LOCK_EX)
    try:
        if os.path.exists(out) and os.path.exists(stamp) and open(stamp).read() == digest:
            return out
        tmp = out + ".tmp%d" % os.getpid()
        r = subprocess.run(["gcc", "-O1", "-g", "-shared", "-fPIC", "-Wall", "-o", tmp, src, "-ldl"],
                           stdout=subprocess.PIPE, stderr=subprocess.STDOUT, text=True)
        if r.returncode != 0:
            raise core.HarnessError("libvf_fault.so failed to build:\n" + r.stdout[-3000:])
        os.replace(tmp, out)
        open(stamp, "w").write(digest)
    finally:
        fcntl.flock(lock, fcntl.LOCK_UN)
        lock.close()
    return out


def prepare(chk):
    core.build(FLAVOR)
    preload_path()


def parse_log(path):
    ev = []
    try:
        for line in open(path, errors="replace"):
            p = line.split()
            if p:
                ev.append(p)
    except OSError:
        pass
    return ev


# ---------------------------------------------------------------------------
# one tool run
# ---------------------------------------------------------------------------

class Runner:
    """Runs one tool x channel x back-end configuration of a case repeatedly with different faults."""

    def __init__(self, ctx, case):
        self.case = case
        self.b = core.build(FLAVOR)
        self.pre = preload_path()
        self.d = ctx.casedir(case["id"])
        self.tool, self.channel, self.backend = case["tool"], case["channel"], case["backend"]
        self.hdr = os.path.join(self.d, "lib.h")
        open(self.hdr, "w").write(case["header"])
        self.outdir = os.path.join(self.d, "out")
        self.nrun = 0
        self.lib_in = None

    def default_paths(self):
        return {"oc": os.path.join(self.outdir, "lib_igate.cxx"), "od": os.path.join(self.outdir, "lib.in"),
                "oh": os.path.join(self.outdir, "lib.txt"), "moc": os.path.join(self.outdir, "mod_module.cxx")}

    def _igate_cmd(self, paths):
        return [self.b.interrogate, "-D__cplusplus=201703L", "-DCPPPARSER", "-S" + self.b.parser_inc,
                "-oc", paths["oc"], "-od", paths["od"], "-oh", paths["oh"], "-module", "mod", "-library", "lib",
                self.backend, "-fnames", "-promiscuous", self.hdr]

    def _ensure_in(self):
        """interrogate_module needs a database: produce it once with a fault-free interrogate run."""
        if self.lib_in:
            return None
        d = os.path.join(self.d, "pre")
        os.makedirs(d, exist_ok=True)
        paths = {"oc": os.path.join(d, "lib_igate.cxx"), "od": os.path.join(d, "lib.in"), "oh": os.path.join(d, "lib.txt")}
        r = core.run(self._igate_cmd(paths), timeout=60, cwd=d)
        if r.rc != 0 or not os.path.exists(paths["od"]):
            return "fault-free interrogate run failed: " + r.how()
        self.lib_in = paths["od"]
        return None

    def run(self, target=None, env=None, strace=None):
        """One execution.  target: path given for the channel under test (None = the normal one).
        strace: None, or a function path -> list of strace arguments (independent, syscall-level injector; the
        LD_PRELOAD library is then not loaded).  Returns (Result, events, target-path)."""
        shutil.rmtree(self.outdir, ignore_errors=True)
        os.makedirs(self.outdir)
        paths = self.default_paths()
        key = "moc" if self.tool == "interrogate_module" else self.channel
        if target is not None:
            paths[key] = target
        self.nrun += 1
        log = os.path.join(self.d, "log%d" % self.nrun)
        e = {"VF_FAULT_LOG": log}
        e.update(env or {})
        if "VF_FAULT_PATH" in e and e["VF_FAULT_PATH"] is True:
            e["VF_FAULT_PATH"] = paths[key]
        if self.tool == "interrogate":
            cmd = self._igate_cmd(paths)
        else:
            cmd = [self.b.interrogate_module, "-oc", paths["moc"], "-module", "mod", "-library", "lib",
                   self.backend, self.lib_in]
        if strace is not None:
            slog = os.path.join(self.d, "strace%d" % self.nrun)
            r = core.run(["strace", "-f", "-o", slog] + strace(paths[key]) + cmd, timeout=120, cwd=self.outdir)
            ev = [["STRACE", line] for line in open(slog, errors="replace")] if os.path.exists(slog) else []
            try:
                os.unlink(slog)
            except OSError:
                pass
            return r, ev, paths[key]
        r = core.run(cmd, timeout=60, cwd=self.outdir, env=e, preload=self.pre)
        ev = parse_log(log)
        try:
            os.unlink(log)
        except OSError:
            pass
        return r, ev, paths[key]


def select_ks(n, ksel):
    if n <= 0:
        return []
    if ksel.get("ks"):
        return [k for k in ksel["ks"] if 1 <= k <= n]
    cap = int(ksel.get("max", 12))
    if n <= cap:
        return list(range(1, n + 1))
    head = cap // 3
    tail = cap // 3
    mid = cap - head - tail
    ks = set(range(1, head + 1)) | set(range(n - tail + 1, n + 1))
    span = n - head - tail
    for i in range(mid):
        ks.add(head + 1 + (i * span) // mid + span // (2 * mid))
    return sorted(k for k in ks if 1 <= k <= n)


def pos_class(k, n):
    if k == 1:
        return "first"
    if k == n:
        return "last"
    return "middle"


def run_case(ctx, case):
    res = core.CaseResult()
    rn = Runner(ctx, case)
    tool, channel, backend, fault = case["tool"], case["channel"], case["backend"], case["fault"]
    fclass = FAULT_CLASS[fault]
    ident = "tool=%s,channel=%s" % (tool, channel)
    if tool == "interrogate_module":
        why = rn._ensure_in()
        if why:
            res.inconclusive = why
            return res

    fired = []          # (label, rc) of runs where the fault really happened
    bad = []            # labels of runs that exited 0 although the fault happened
    unfired = 0
    timeouts = 0
    n_writes = None

    def judge(label, r, happened, pos):
        nonlocal unfired, timeouts
        res.count("runs")
        if r.timed_out:
            timeouts += 1
            return
        if not happened:
            unfired += 1
            res.count("runs_fault_not_fired")
            return
        fired.append((label, r.rc))
        res.count("faults_fired")
        res.features.add("%s:%s:%s:%s:%s" % (tool, channel, backend, fclass if fclass != "open-fail" else fault, pos))
        if r.died():
            res.count("died_after_fault")         # non-zero for a build system; recorded
        if r.rc == 0 and not r.died():
            bad.append(label)

    if fault in STATIC:
        d = rn.d
        env = {"VF_FAULT_RECORD": "1"}
        if fault == "open-missing-dir":
            target = os.path.join(d, "no", "such", "dir", "out.x")
            happened = lambda ev, t: True                                   # cannot be opened by construction
        elif fault == "open-through-file":
            open(os.path.join(d, "afile"), "w").write("x")
            target = os.path.join(d, "afile", "out.x")
            happened = lambda ev, t: True
        elif fault == "open-is-directory":
            os.makedirs(os.path.join(d, "adir"), exist_ok=True)
            target = os.path.join(d, "adir")
            happened = lambda ev, t: True
        elif fault in ("open-EACCES", "open-EROFS"):
            target = None
            env = {"VF_FAULT_PATH": True, "VF_FAULT_OPEN": "1", "VF_FAULT_ERRNO": fault[5:]}
            happened = lambda ev, t: any(e[0] == "INJECTED-OPEN" for e in ev)
        else:
            # through a symbolic link: a tool that unlinks its output on failure must not remove the device node
            target = os.path.join(d, "devfull")
            if not os.path.islink(target):
                os.symlink("/dev/full", target)
            happened = lambda ev, t: any(e[0] == "FAILED" and e[1] in ("/dev/full", target) for e in ev)
        r, ev, t = rn.run(target=target, env=env)
        judge(fault, r, happened(ev, t), "n/a")
        if fault.startswith("open-") and target is not None and not r.timed_out:
            # by construction the path cannot exist as a regular file afterwards
            if os.path.isfile(target):
                raise core.HarnessError("static fault %s did not prevent creating %s" % (fault, target))
    else:
        # fault-free recording run: how many writes does this output take?
        r0, ev0, t0 = rn.run(env={"VF_FAULT_RECORD": "1"})
        if r0.timed_out or r0.rc != 0 or r0.died():
            res.inconclusive = "fault-free reference run failed: " + r0.how()
            return res
        rp = os.path.realpath(t0)
        n_writes = sum(1 for e in ev0 if e[0] == "W" and e[1] == rp)
        opened = any(e[0] == "OPEN" and e[1] == rp for e in ev0)
        res.count("reference_runs")
        if not opened:
            res.inconclusive = "output never opened in the fault-free run"
            return res
        errno = case.get("errno", "ENOSPC")
        if fault == "close":
            r, ev, t = rn.run(env={"VF_FAULT_PATH": True, "VF_FAULT_CLOSE": "1", "VF_FAULT_ERRNO": errno})
            judge("close", r, any(e[0] == "INJECTED-CLOSE" for e in ev), "close")
        elif fault == "strace-write":
            # cross-check with an injector that shares nothing with vf_fault.c: strace fails every write(2)/writev(2)
            # on the output path from the first one on, in the kernel's syscall path
            r, ev, t = rn.run(strace=lambda path: ["-e", "trace=write,writev", "-e",
                                                   "inject=write,writev:error=%s:when=1+" % errno, "-P", path])
            if not ev or "strace:" in r.err and "ptrace" in r.err.lower():
                res.inconclusive = "strace unavailable"
                return res
            judge("strace", r, any("(INJECTED)" in e[1] for e in ev), "strace")
        else:
            ks = select_ks(n_writes, case.get("ksel", {}))
            for k in ks:
                r, ev, t = rn.run(env={"VF_FAULT_PATH": True, "VF_FAULT_K": str(k), "VF_FAULT_ERRNO": errno,
                                       "VF_FAULT_MODE": {"short": "short", "once": "once"}.get(fault, "fail")})
                judge("k=%d" % k, r, any(e[0] == "INJECTED" for e in ev), pos_class(k, n_writes))
                if os.path.isfile(t) and any(e[0] == "INJECTED" for e in ev):
                    res.count("truncated_output_left_behind")
            if n_writes == 0:
                res.count("outputs_without_writes")

    res.sample = dict(tool=tool, channel=channel, backend=backend, fault=fault, errno=case.get("errno"),
                      writes_in_fault_free_run=n_writes, fired=[list(x) for x in fired[:6]], exit0_after_fault=bad[:6])
    if bad:
        res.violation("exit-0-after-fault:%s,fault=%s" % (ident, fclass),
                      witness=dict(backend=backend, fault=fault, errno=case.get("errno"), first=bad[0], all=bad[:20],
                                   writes=n_writes),
                      expected="exit status != 0 after a fault on the requested output",
                      got="exit status 0")
    if not fired:
        if timeouts:
            res.inconclusive = "watchdog"
        else:
            res.inconclusive = "no fault fired (%s)" % ("output takes no write calls" if n_writes == 0 else "injector idle")
    return res


# ---------------------------------------------------------------------------
# workload
# ---------------------------------------------------------------------------

def make_case(i, header, tool, channel, backend, fault, **kw):
    c = dict(id="c%d" % i, header=header, tool=tool, channel=channel, backend=backend, fault=fault)
    c.update(kw)
    return c


def main(chk):
    chk.rule = ("fault enumeration: each case is one (tool, output channel, back-end, fault kind) on a generated header; "
                "k-th-write cases first record the number n of write(2)/writev(2) calls of a fault-free run and then fail "
                "(or shorten) the k-th one for the selected k in 1..n; a feature signature is "
                "tool:channel:back-end:fault-class:position(first/middle/last/close) and is counted only when the "
                "injector's side log (INJECTED*/FAILED) proves the fault really happened in that run")
    chk.assumptions = [
        "libstdc++'s basic_filebuf reaches the kernel only through fopen/fclose/write/writev, which the LD_PRELOAD "
        "injector interposes (validated per run: a run whose log shows no fired fault is inconclusive, never a pass)",
        "the ubsan flavour (no malloc replacement) behaves like the shipped tool with respect to output handling",
        "read-only targets are modelled by open() failing with EACCES/EROFS (checks run as root, permission bits are not enforced)",
    ]
    rng = random.Random(chk.rng.getrandbits(64))
    sizes = chk.pick([(1, 3, 2, False), (6, 8, 5, True), (24, 12, 10, True)],
                     [(1, 2, 1, False), (3, 6, 4, True), (10, 10, 6, True), (30, 14, 10, True), (80, 16, 20, True)])
    headers = [iogen.header(random.Random(rng.getrandbits(64)), n_classes=a, n_methods=m, n_free=f, docs=dc, tag="io%d" % j)
               for j, (a, m, f, dc) in enumerate(sizes)]
    kmax = chk.pick(24, 200)
    cases = []
    i = 0
    for tool, channel in CHANNELS:
        for backend in BACKENDS:
            # static faults do not depend on the header: one header in quick, all in thorough
            for h in headers[:chk.pick(1, len(headers))]:
                for fault in STATIC:
                    i += 1
                    cases.append(make_case(i, h, tool, channel, backend, fault))
            for j, h in enumerate(headers):
                variants = [("write", "ENOSPC"), ("short", "ENOSPC"), ("close", "EIO"), ("once", "EIO")]
                if j == len(headers) - 1 or not chk.quick():
                    variants += [("write", "EIO"), ("close", "ENOSPC")]
                if not chk.quick():
                    variants += [("short", "EIO"), ("write", "EDQUOT"), ("once", "ENOSPC")]
                    if j == 1:
                        variants += [("strace-write", "ENOSPC")]
                for fault, errno in variants:
                    i += 1
                    cases.append(make_case(i, h, tool, channel, backend, fault, errno=errno, ksel={"max": kmax}))
    rng.shuffle(cases)
    chk.run_cases(__name__, cases)
    chk.extra["fault_points_fired"] = chk.counters.get("faults_fired", 0)
    chk.extra["tool_runs"] = chk.counters.get("runs", 0) + chk.counters.get("reference_runs", 0)
    chk.extra["k_selection"] = "every k in 1..n" if not chk.quick() else "every k when n <= %d, else first/last thirds and a spread" % kmax
    chk.min_conclusive = 20
