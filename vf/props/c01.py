"""C01 — handle-style wrappers (-c, -python) behave exactly like the C++ they wrap.

Workload: libgen libraries whose every C++ body records (entity id, this, argument values, result) in a trace.
The generated -c wrappers are compiled with ASan+UBSan into a shared object together with the library and driven
through ctypes by a client that takes every prototype *from the database only* (vf/drv_c.py).  Oracle: for each
wrapper call, the trace must show exactly the body the database entry names (overload and omitted-default variant),
`this` and every argument as passed (omitted defaults with their declared default values), and the value that
crossed back through the wrapper must be the value that body logged for this very call.  Data-member accessors are
checked by set->get round trips against native peeks, casts against static_cast, destructors against the
instance ledger.
"""
import json
import os
import random
import shutil
import sys

from vf import core, tools, genbuild, libbuild
from vf.gen import libgen

LEVEL = "translation_validation"

CONFIGS = {
    "c": ["-c", "-fnames"],
    "c-string": ["-c", "-fnames", "-string"],
    "c-string-promiscuous": ["-c", "-fnames", "-string", "-promiscuous"],
    "c-promiscuous": ["-c", "-fnames", "-promiscuous"],
    "python": ["-python", "-fnames"],
    "python-promiscuous": ["-python", "-fnames", "-promiscuous"],
    "python-string": ["-python", "-fnames", "-string"],
}


def run_case(ctx, case):
    res = core.CaseResult()
    b = core.build("asan")
    d = ctx.casedir(case["id"])
    if case.get("files"):
        libgen.write_files(d, case["files"])
        model = json.loads(case["files"]["liba.model.json"])
    else:
        # without -string a std::string crosses the wrapper as an opaque handle the client cannot construct:
        # those libraries are generated without string types
        lib = libgen.generate(random.Random(case["libseed"]), "liba", size=case.get("size", 1.0), docs=False,
                              strings="-string" in CONFIGS[case["cfg"]], arrays="-python" not in CONFIGS[case["cfg"]],
                              ext=True, shadow=True)
        lib.write(d)
        model = lib.model
    cfg = CONFIGS[case["cfg"]]
    r, p = libbuild.igate(b, d, "liba", cfg)
    res.count("programs")
    if r.rc != 0 or r.died():
        res.inconclusive = "interrogate did not succeed: " + r.how()
        shutil.rmtree(d, ignore_errors=True)
        return res
    r2, dump = tools.idbdump([p["od"]])
    if dump is None:
        res.inconclusive = "database unreadable"
        shutil.rmtree(d, ignore_errors=True)
        return res
    dirs = libbuild.dirs_for(d)
    objs = []
    for src, o in ((p["oc"], "igate.o"), (os.path.join(d, "liba.cxx"), "lib.o")):
        rc = genbuild.compile_obj(b, src, os.path.join(d, o), dirs=dirs, san=True, opt="-O1", python="-python" in cfg)
        if rc.rc != 0:
            # C03's subject; nothing can be called
            res.inconclusive = "generated code does not compile (see C03)"
            shutil.rmtree(d, ignore_errors=True)
            return res
        objs.append(os.path.join(d, o))
    so = os.path.join(d, "libc_liba.so")
    rl = genbuild.link_shared(objs, so, san=True, extra=b.libs("interrogatedb", "dtoolutil", "dtoolbase"))
    if rl.rc != 0:
        res.inconclusive = "link failed (see C03)"
        shutil.rmtree(d, ignore_errors=True)
        return res
    json.dump(dump, open(os.path.join(d, "dump.json"), "w"))
    json.dump(model, open(os.path.join(d, "model.json"), "w"))
    drv = os.path.join(core.VERIF, "vf", "drv_c.py")
    env = {"PYTHONMALLOC": "malloc", "ASAN_OPTIONS": core.SAN_ENV["ASAN_OPTIONS"] + ":verify_asan_link_order=0"}
    rr = core.run([sys.executable, drv, d, os.path.join(d, "dump.json"), os.path.join(d, "model.json"), so,
                   str(case["drvseed"]), str(case.get("ncalls", 300)), "1" if "-string" in cfg else "0",
                   "python" if "-python" in cfg else "c"],
                  timeout=300, env=env, preload=genbuild.asan_preload())
    rcase = dict(id=case["id"], cfg=case["cfg"], drvseed=case["drvseed"], ncalls=case.get("ncalls", 300),
                 files=libgen.read_files(d))
    line = next((l for l in rr.out.splitlines() if l.startswith("VFRESULT ")), None)
    if line is None:
        # the driver process died: sanitizer report / crash inside generated code or the library under it
        how = rr.how()
        fr = [f for f in rr.frames(4)] if rr.err else []
        import re
        m = re.search(r"in (_inC\w+|\w+::\w+|fn_\w+)", rr.err)
        res.violation(f"driver-died:{case['cfg']}:{how}", err=rr.err[-1500:], replay_case=rcase)
        shutil.rmtree(d, ignore_errors=True)
        return res
    out = json.loads(line[len("VFRESULT "):])
    if out["error"]:
        raise core.HarnessError("drv_c failed: " + out["error"][-1500:])
    for k, v in out["counts"].items():
        res.count(k, v)
    for f in out["features"]:
        res.features.add(case["cfg"] + ":" + f)
    seen = set()
    for key, detail in out["violations"]:
        k = f"{key}:cfg={case['cfg']}"
        if k in seen:
            continue
        seen.add(k)
        res.violation(k, replay_case=rcase, **detail)
    res.sample = dict(cfg=case["cfg"], libseed=case.get("libseed"), calls=out["counts"].get("wrapper_calls"),
                      events=out["counts"].get("trace_events_compared"))
    shutil.rmtree(d, ignore_errors=True)
    return res


def main(chk):
    chk.rule = ("case = (libgen library, -c option set, driver seed); the driver calls every exported wrapper variant "
                ">= 2 times plus random calls, with boundary values of the declared parameter types and interleaved objects; "
                "distinct = (config, parameter/result/member kind, call kind) signatures actually exercised and compared")
    chk.assumptions = ["the instrumented body's own log of its arguments and result is the reference for what the direct C++ call does",
                       "only the -c back-end with -fnames is driven (the other naming modes do not yield callable code on this tree: C03 findings)",
                       "ASan+UBSan on wrappers and library; leaks not judged"]
    rng = chk.rng
    cases = []
    cid = 0
    for i in range(chk.pick(6, 60)):
        libseed = rng.randrange(1 << 30)
        for cfg in (rng.sample(sorted(CONFIGS), 3) if chk.quick() else sorted(CONFIGS)):
            cid += 1
            cases.append(dict(id=cid, libseed=libseed, cfg=cfg, drvseed=rng.randrange(1 << 30),
                              ncalls=chk.pick(300, 1500)))
    chk.run_cases(__name__, cases)
