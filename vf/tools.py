"""Thin wrappers around the tools under test and the harness programs."""
import json
import os

from . import core

CPP_DEFS = ["-D__cplusplus=201703L", "-DCPPPARSER"]


def interrogate(b, headers, outdir, opts=(), name="lib", module="mod", defs=CPP_DEFS, incs=(), srcdir=None,
                oc=True, od=True, oh=False, cwd=None, timeout=60, env=None, preload=None, extra=()):
    """Run interrogate.  headers: list of paths (absolute recommended).  Returns (Result, paths dict)."""
    paths = {}
    cmd = [b.interrogate] + list(defs) + ["-S" + b.parser_inc]
    for i in incs:
        cmd.append(i)
    if srcdir:
        cmd += ["-srcdir", srcdir]
    if oc:
        paths["oc"] = os.path.join(outdir, f"{name}_igate.cxx")
        cmd += ["-oc", paths["oc"]]
    if od:
        paths["od"] = os.path.join(outdir, f"{name}.in")
        cmd += ["-od", paths["od"]]
    if oh:
        paths["oh"] = os.path.join(outdir, f"{name}.txt")
        cmd += ["-oh", paths["oh"]]
    cmd += ["-module", module, "-library", name] + list(opts) + list(extra) + list(headers)
    r = core.run(cmd, timeout=timeout, cwd=cwd or outdir, env=env, preload=preload)
    return r, paths


def interrogate_module(b, ins, out, module="mod", library="mod", opts=("-python-native",), cwd=None, timeout=60,
                       env=None, preload=None):
    cmd = [b.interrogate_module, "-oc", out, "-module", module, "-library", library] + list(opts) + list(ins)
    return core.run(cmd, timeout=timeout, cwd=cwd or os.path.dirname(out), env=env, preload=preload)


def parse_file(b, files, opts=(), defs=("-D__cplusplus=201703L",), cwd=None, timeout=20, env=None, incs=()):
    cmd = [b.parse_file] + list(opts) + list(defs) + ["-S" + b.parser_inc] + list(incs) + list(files)
    return core.run(cmd, timeout=timeout, cwd=cwd, env=env)


_idbdump = {}


def idbdump_path(flavor="asan"):
    if flavor not in _idbdump:
        _idbdump[flavor] = core.build_harness("idbdump", ["idbdump.cxx"], flavor=flavor)
    return _idbdump[flavor]


def idbdump(ins, rewrite=None, flavor="asan", timeout=60):
    """Load .in files (absolute paths!) through the query interface; return (Result, parsed-json-or-None)."""
    cmd = [idbdump_path(flavor)]
    if rewrite:
        cmd += ["--rewrite", rewrite]
    cmd += [os.path.abspath(p) for p in ins]
    r = core.run(cmd, timeout=timeout)
    d = None
    if r.rc == 0 and not r.died():
        try:
            d = json.loads(r.out)
        except ValueError:
            d = None
    return r, d


class Db:
    """Index-free convenience view over an idbdump JSON."""

    def __init__(self, d):
        self.d = d
        self.types = {t["index"]: t for t in d["types"]}
        self.functions = {t["index"]: t for t in d["functions"]}
        self.wrappers = {t["index"]: t for t in d["wrappers"]}
        self.elements = {t["index"]: t for t in d["elements"]}
        self.make_seqs = {t["index"]: t for t in d["make_seqs"]}
        self.manifests = {t["index"]: t for t in d["manifests"]}

    def type_by_scoped(self, name):
        for t in self.types.values():
            if t["scoped_name"] == name:
                return t
        return None

    def type_by_true(self, name):
        for t in self.types.values():
            if t["true_name"] == name:
                return t
        return None

    def tname(self, idx):
        t = self.types.get(idx)
        return t["true_name"] if t else None

    def functions_named(self, scoped):
        return [f for f in self.functions.values() if f["scoped_name"] == scoped]


def gxx(args, timeout=180, cwd=None):
    return core.run(["g++", "-std=gnu++17"] + list(args), timeout=timeout, cwd=cwd)
