// Runtime for libgen-generated libraries: trace log, instance registry, value factory.
// Header-only (C++17 inline variables) so several libraries linked into one shared object share one trace.
#ifndef VF_LIBGEN_RT_H
#define VF_LIBGEN_RT_H
#ifndef CPPPARSER
#include <cstdint>
#include <cstdio>
#include <cstring>
#include <map>
#include <string>
#include <vector>
#include <limits>
#include <type_traits>

namespace vf {
struct Range { const char *b, *e; int iid; std::string cls; };
inline std::vector<std::string> g_trace;
inline std::vector<Range> g_ranges;
inline int g_next_iid = 1;
inline std::string g_dump;

inline int iid_of(const void *p) {
  const char *c = (const char *)p;
  for (size_t i = g_ranges.size(); i-- > 0;)
    if (c >= g_ranges[i].b && c < g_ranges[i].e) return g_ranges[i].iid;
  return 0;
}
inline int reg(const void *p, size_t n, const char *cls) {
  const char *b = (const char *)p, *e = b + n;
  int iid = 0;
  for (size_t i = 0; i < g_ranges.size();) {
    if (g_ranges[i].b >= b && g_ranges[i].b < e) {
      if (!iid || g_ranges[i].iid < iid) iid = g_ranges[i].iid;
      g_ranges.erase(g_ranges.begin() + i);
    } else ++i;
  }
  bool fresh = !iid;
  if (!iid) iid = g_next_iid++;
  g_ranges.push_back(Range{b, e, iid, cls});
  char buf[160];
  snprintf(buf, sizeof buf, "C %d %s %s", iid, cls, fresh ? "new" : "grow");
  g_trace.push_back(buf);
  return iid;
}
inline void unreg(const void *p, size_t n, const char *cls) {
  const char *b = (const char *)p;
  for (size_t i = g_ranges.size(); i-- > 0;) {
    if (g_ranges[i].b == b && g_ranges[i].cls == cls) {
      char buf[160];
      snprintf(buf, sizeof buf, "D %d %s", g_ranges[i].iid, cls);
      g_trace.push_back(buf);
      g_ranges.erase(g_ranges.begin() + i);
      return;
    }
  }
  // a base-class destructor running after the derived one: the range is already gone.
  (void)n;
}

inline uint64_t mix(uint64_t a, uint64_t b) {
  uint64_t x = a * 0x9E3779B97F4A7C15ull + b + 0x7F4A7C15ull;
  x ^= x >> 29; x *= 0xBF58476D1CE4E5B9ull; x ^= x >> 32;
  return x;
}
inline uint64_t hs(const std::string &s) { uint64_t h = 1469598103934665603ull; for (unsigned char c : s) h = (h ^ c) * 1099511628211ull; return h; }
inline uint64_t hs(const char *s) { return s ? hs(std::string(s)) : 7; }
template <class T> inline typename std::enable_if<std::is_floating_point<T>::value, uint64_t>::type hv(T v) { double d = v; uint64_t u; memcpy(&u, &d, 8); return u; }
template <class T> inline typename std::enable_if<std::is_integral<T>::value || std::is_enum<T>::value, uint64_t>::type hv(T v) { return (uint64_t)(long long)v; }

// ---- value factory: a result of the declared type from a hash, boundary-biased, no UB
template <class T> inline T make_int(uint64_t h) {
  typedef std::numeric_limits<T> L;
  switch (h % 7) {
    case 0: return L::min();
    case 1: return L::max();
    case 2: return (T)(L::min() + 1);
    case 3: return (T)(L::max() - 1);
    case 4: return (T)0;
    default: break;
  }
  // modulo into the range
  typedef typename std::make_unsigned<T>::type U;
  U u = (U)(h >> 8);
  T r; memcpy(&r, &u, sizeof r);
  return r;
}
template <> inline bool make_int<bool>(uint64_t h) { return (h >> 3) & 1; }
template <class T> inline T make_flt(uint64_t h) { long long k = (long long)((h >> 5) % 33554431ull) - 16777215; return (T)k / (T)8; }
template <class T> inline typename std::enable_if<std::is_integral<T>::value, T>::type make_val(uint64_t h) { return make_int<T>(h); }
template <class T> inline typename std::enable_if<std::is_floating_point<T>::value, T>::type make_val(uint64_t h) { return make_flt<T>(h); }
inline int g_nul = 0;   // set by a client that can take std::string results with embedded NUL bytes (length-carrying API)
inline std::string make_str(uint64_t h) {
  static const char *alpha[] = {"a", "b", "Z", "0", " ", "_", "\xc3\xa9", "\xe2\x82\xac", "q", "\"", "\\", "%", "x"};
  size_t n = (h >> 4) % 9; std::string s;
  for (size_t i = 0; i < n; ++i) {
    h = mix(h, i);
    if (g_nul && h % 11 == 3) { s += '\0'; continue; }
    s += alpha[h % 13];
  }
  return s;
}
inline const char *make_cstr(uint64_t h) {
  static std::string pool[64]; static bool init = false;
  if (!init) { for (int i = 0; i < 64; ++i) pool[i] = make_str(mix(99, i)); init = true; }
  return pool[h % 64].c_str();
}

// ---- event building
inline std::string hex(const std::string &s) { static const char *d = "0123456789abcdef"; std::string o; for (unsigned char c : s) { o += d[c >> 4]; o += d[c & 15]; } return o; }
struct Ev {
  std::string line;
  Ev(int eid, const void *self) { char b[64]; snprintf(b, sizeof b, "E %d this=%d", eid, self ? iid_of(self) : 0); line = b; }
  void raw(const char *tag, const std::string &v) { line += ' '; line += tag; line += '='; line += v; }
  template <class T> typename std::enable_if<std::is_integral<T>::value && std::is_signed<T>::value>::type put(const char *t, T v) { raw(t, "i" + std::to_string((long long)v)); }
  template <class T> typename std::enable_if<std::is_integral<T>::value && !std::is_signed<T>::value>::type put(const char *t, T v) { raw(t, "u" + std::to_string((unsigned long long)v)); }
  template <class T> typename std::enable_if<std::is_enum<T>::value>::type put(const char *t, T v) { raw(t, "i" + std::to_string((long long)v)); }
  template <class T> typename std::enable_if<std::is_floating_point<T>::value>::type put(const char *t, T v) { double d = v; uint64_t u; memcpy(&u, &d, 8); char b[32]; snprintf(b, sizeof b, "f%016llx", (unsigned long long)u); raw(t, b); }
  void put(const char *t, const std::string &v) { raw(t, "s" + hex(v)); }
  void put(const char *t, const char *v) { raw(t, v ? "s" + hex(v) : std::string("n")); }
  void obj(const char *t, const void *p) { raw(t, p ? "o" + std::to_string(iid_of(p)) : std::string("n")); }
  ~Ev() { g_trace.push_back(line); }
};
}  // namespace vf

extern "C" {
inline void vf_rt_anchor() {}
}
#define VF_RT_EXPORTS                                                                         \
  extern "C" void vf_trace_reset() { vf::g_trace.clear(); }                                    \
  extern "C" const char *vf_trace_dump() {                                                     \
    vf::g_dump.clear();                                                                        \
    for (auto &l : vf::g_trace) { vf::g_dump += l; vf::g_dump += '\n'; }                       \
    vf::g_trace.clear();                                                                       \
    return vf::g_dump.c_str();                                                                 \
  }                                                                                            \
  extern "C" int vf_iid(const void *p) { return vf::iid_of(p); }                               \
  extern "C" int vf_live_count() { return (int)vf::g_ranges.size(); }                         \
  extern "C" void vf_set_nul(int v) { vf::g_nul = v; }
#endif
#endif
