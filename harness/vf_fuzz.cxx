// libFuzzer entry over CPPParser::parse_file (C15, thorough tier).
//
// Built with the `fuzz` flavour (clang++-14 -fsanitize=fuzzer,address,undefined) against that flavour's
// libcppParser.a.  Every input is written to $VF_FUZZ_DIR/main.h and parsed by a fresh CPPParser that is set up
// like parse_file's (-S$VF_PARSER_INC -D__cplusplus=201703L, verbose 2, so that the diagnostic paths
// (show_line etc.) run too).  By input size modulo 3: 0 = parse_file, 1 = preprocess_file (parse_file -E),
// 2 = the front-end half of a .N command file: $VF_FUZZ_DIR/carrier.h (written by the check) is parsed and every
// line of the input goes through parse_type / resolve_type / get_local_name and parse_expr, which is what
// interrogate's forcetype / renametype / ignoretype / defconstruct commands do with their operand.  In-process state (the global type tables) survives between inputs, which is not how the tool
// runs: an artifact found here counts only after it reproduced on the real asan parse_file in a fresh process
// (vf/props/c15.py does that).

#include "cppParser.h"
#include "cppManifest.h"
#include "cppType.h"
#include "cppExpression.h"
#include "cppFile.h"
#include "filename.h"

#include <ctype.h>
#include <stdint.h>
#include <stdio.h>
#include <stdlib.h>
#include <string>

static std::string work_file() {
  const char *dir = getenv("VF_FUZZ_DIR");
  std::string d = (dir != nullptr && dir[0] != 0) ? dir : ".";
  return d + "/main.h";
}

extern "C" int LLVMFuzzerTestOneInput(const uint8_t *data, size_t size) {
  static const std::string path = work_file();
  static const char *parser_inc = getenv("VF_PARSER_INC");

  FILE *f = fopen(path.c_str(), "wb");
  if (f == nullptr) {
    fprintf(stderr, "vf_fuzz: cannot write %s\n", path.c_str());
    abort();
  }
  if (size != 0) {
    fwrite(data, 1, size, f);
  }
  fclose(f);

  // Deliberately leaked, like the tool does (the parse tree is never freed).
  CPPParser *parser = new CPPParser;
  parser->set_verbose(2);
  if (parser_inc != nullptr && parser_inc[0] != 0) {
    parser->_angle_include_path.append_directory(parser_inc);
    parser->_quote_include_path.append_directory(parser_inc);
    parser->_quote_include_kind.push_back(CPPFile::S_system);
  }
  CPPManifest *macro = new CPPManifest(*parser, "__cplusplus", "201703L");
  parser->_manifests[macro->_name] = macro;

  switch (size % 3) {
  case 1:
    parser->preprocess_file(Filename(path));
    break;

  case 2:
    {
      static const std::string carrier = path.substr(0, path.size() - 6) + "carrier.h";
      parser->parse_file(Filename(carrier));
      std::string text((const char *)data, size);
      size_t p = 0;
      while (p < text.size()) {
        size_t q = text.find('\n', p);
        if (q == std::string::npos) {
          q = text.size();
        }
        std::string line = text.substr(p, q - p);
        p = q + 1;
        // read_command_file() strips comments and surrounding white space first
        size_t hash = line.find('#');
        if (hash != std::string::npos) {
          line = line.substr(0, hash);
        }
        while (!line.empty() && isspace((unsigned char)line[line.size() - 1])) {
          line.resize(line.size() - 1);
        }
        size_t b = 0;
        while (b < line.size() && isspace((unsigned char)line[b])) {
          ++b;
        }
        line = line.substr(b);
        if (line.empty() || line.find('\0') != std::string::npos) {
          continue;
        }
        CPPType *type = parser->parse_type(line);
        if (type != nullptr) {
          type = type->resolve_type(parser, parser);
          type->get_local_name(parser);
        }
        parser->parse_expr(line);
      }
    }
    break;

  default:
    parser->parse_file(Filename(path));
    break;
  }
  return 0;
}
