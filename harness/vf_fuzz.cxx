// libFuzzer entry over CPPParser::parse_file (C15, thorough tier).
//
// Built with the `fuzz` flavour (clang++-14 -fsanitize=fuzzer,address,undefined) against that flavour's
// libcppParser.a.  Every input is written to $VF_FUZZ_DIR/main.h and parsed by a fresh CPPParser that is set up
// like parse_file's (-S$VF_PARSER_INC -D__cplusplus=201703L, verbose 2, so that the diagnostic paths
// (show_line etc.) run too).  Odd-sized inputs go through preprocess_file (parse_file -E), the rest through
// parse_file.  In-process state (the global type tables) survives between inputs, which is not how the tool
// runs: an artifact found here counts only after it reproduced on the real asan parse_file in a fresh process
// (vf/props/c15.py does that).

#include "cppParser.h"
#include "cppManifest.h"
#include "cppFile.h"
#include "filename.h"

#include <stdint.h>
#include <stdio.h>
#include <stdlib.h>
#include <string>

static std::string work_file() {
  const char *dir = getenv("VF_FUZZ_DIR");
  std::string d = (dir != nullptr && dir[0] != 0) ? dir : ".";
  return d + "/main.h";
}

extern "C" int LLVMFuzzerTestOneInput(const uint8_t *data, size_t size) {
  static const std::string path = work_file();
  static const char *parser_inc = getenv("VF_PARSER_INC");

  FILE *f = fopen(path.c_str(), "wb");
  if (f == nullptr) {
    fprintf(stderr, "vf_fuzz: cannot write %s\n", path.c_str());
    abort();
  }
  if (size != 0) {
    fwrite(data, 1, size, f);
  }
  fclose(f);

  // Deliberately leaked, like the tool does (the parse tree is never freed).
  CPPParser *parser = new CPPParser;
  parser->set_verbose(2);
  if (parser_inc != nullptr && parser_inc[0] != 0) {
    parser->_angle_include_path.append_directory(parser_inc);
    parser->_quote_include_path.append_directory(parser_inc);
    parser->_quote_include_kind.push_back(CPPFile::S_system);
  }
  CPPManifest *macro = new CPPManifest(*parser, "__cplusplus", "201703L");
  parser->_manifests[macro->_name] = macro;

  if (size & 1) {
    parser->preprocess_file(Filename(path));
  } else {
    parser->parse_file(Filename(path));
  }
  return 0;
}
