// fname_harness -- drives Filename::standardize / make_absolute / make_canonical /
// make_relative_to of libdtoolutil over path strings read from stdin (C17).
//
//   fname_harness <cwd> [<dir> ...]  < paths
//
// The process chdir()s into <cwd>.  For each input line p (a non-empty path string) one output
// line of TAB separated fields is written:
//
//   p  S1  S2  A1  A2  CR  C1  C2  CWD  [R<i>t  R<i>f]...
//
//   S1 = standardize(p)          S2 = standardize(S1)
//   A1 = make_absolute(p)        A2 = make_absolute(A1)
//   CR = return value of make_canonical(p) (0/1), C1 its result, C2 = make_canonical(C1)
//   CWD = 1 when the process working directory is still <cwd> after the calls
//   R<i>t / R<i>f = "ret:result" of Filename(p).make_relative_to(<dir i>, allow_backups=true/false)
//                   (only when p is absolute; "-" otherwise)
//
// An empty Filename is printed as <EMPTY>; the functions are never re-applied to an empty result
// (standardize() asserts on empty input; that is reported by the oracle from S1 alone).
// With "--twice-empty" as first argument the harness instead applies standardize() twice to argv[3]
// after chdir(argv[2]) -- used once to show what f(f(p)) does when f(p) is empty.
#include "filename.h"

#include <iostream>
#include <string>
#include <vector>
#include <unistd.h>
#include <limits.h>
#include <stdlib.h>

static std::string show(const Filename &f) {
  if (f.empty()) {
    return "<EMPTY>";
  }
  return f.get_fullpath();
}

static std::string cwd_now() {
  char buf[PATH_MAX + 1];
  if (getcwd(buf, sizeof(buf)) == nullptr) {
    return "?";
  }
  return buf;
}

int main(int argc, char **argv) {
  if (argc >= 4 && std::string(argv[1]) == "--twice-empty") {
    if (chdir(argv[2]) != 0) {
      return 3;
    }
    Filename f(argv[3]);
    f.standardize();
    std::cout << "first:" << show(f) << std::endl;
    f.standardize();
    std::cout << "second:" << show(f) << std::endl;
    return 0;
  }
  if (argc < 2) {
    std::cerr << "usage: fname_harness <cwd> [<dir> ...] < paths\n";
    return 2;
  }
  if (chdir(argv[1]) != 0) {
    std::cerr << "cannot chdir to " << argv[1] << "\n";
    return 3;
  }
  const std::string home = cwd_now();
  std::vector<std::string> dirs;
  for (int i = 2; i < argc; ++i) {
    dirs.push_back(argv[i]);
  }

  std::string p;
  while (std::getline(std::cin, p)) {
    if (p.empty()) {
      continue;
    }
    std::cout << p;

    {
      Filename f(p);
      f.standardize();
      std::cout << '\t' << show(f);
      if (!f.empty()) {
        f.standardize();
        std::cout << '\t' << show(f);
      } else {
        std::cout << "\t-";
      }
    }
    {
      Filename f(p);
      f.make_absolute();
      std::cout << '\t' << show(f);
      if (!f.empty()) {
        f.make_absolute();
        std::cout << '\t' << show(f);
      } else {
        std::cout << "\t-";
      }
    }
    {
      Filename f(p);
      bool ok = f.make_canonical();
      std::cout << '\t' << (ok ? 1 : 0) << '\t' << show(f);
      if (!f.empty()) {
        f.make_canonical();
        std::cout << '\t' << show(f);
      } else {
        std::cout << "\t-";
      }
    }
    std::cout << '\t' << (cwd_now() == home ? 1 : 0);
    if (cwd_now() != home) {
      if (chdir(home.c_str()) != 0) {
        return 4;
      }
    }

    for (const std::string &d : dirs) {
      for (int backups = 1; backups >= 0; --backups) {
        if (p[0] != '/') {
          std::cout << "\t-";
          continue;
        }
        Filename f(p);
        bool ok = f.make_relative_to(Filename(d), backups != 0);
        std::cout << '\t' << (ok ? 1 : 0) << ':' << show(f);
      }
    }
    std::cout << '\n';
  }
  std::cout.flush();
  return 0;
}
