/* vf_fault.c -- LD_PRELOAD write/close fault injector and recorder (property C19).
 *
 * Keeps a table fd -> path for every file the process opens for writing through
 * open/open64/openat/openat64/creat/creat64 and fopen/fopen64 (libstdc++'s
 * basic_filebuf opens through fopen, whose internal open(2) cannot be
 * interposed), counts the write(2)/writev(2) calls made on each such path and
 *
 *   - in recording mode (VF_FAULT_RECORD=1) logs every event, so that the monitor
 *     learns how many writes a fault-free run makes on each output path;
 *   - in injection mode makes the K-th write on VF_FAULT_PATH fail.
 *
 * Environment:
 *   VF_FAULT_LOG    side file that receives the event log (O_APPEND); mandatory
 *   VF_FAULT_RECORD 1: log OPEN/W/CLOSE events for every tracked path
 *   VF_FAULT_PATH   absolute path of the output to hit (compared after realpath)
 *   VF_FAULT_K      1-based index of the write call on that path that fails
 *   VF_FAULT_ERRNO  errno name or number delivered (ENOSPC default; EIO, EDQUOT, EFBIG, ...)
 *   VF_FAULT_MODE   fail  : the K-th write returns -1/errno, nothing is written
 *                   short : the K-th write really writes half of its bytes and returns
 *                           that count; the next write on the path returns -1/errno
 *                   once  : only the K-th write returns -1/errno (nothing written); every later
 *                           write on the path succeeds again (a transient error: quota freed, EIO
 *                           on one block) -- the data of the K-th call is lost all the same
 *   VF_FAULT_CLOSE  1: the close()/fclose() of the path really closes the file but
 *                   reports -1/EOF with errno (a deferred write-back error)
 *   VF_FAULT_OPEN   1: opening the path for writing fails with errno (EACCES, EROFS, ...);
 *                   stands for read-only files/directories, which cannot be produced with
 *                   permission bits when the checks run as root
 *
 * In modes fail and short a failed write is persistent: every later write on the path fails the
 * same way (a full device stays full).
 *
 * Log lines (one write(2) each, so lines of concurrent processes do not mix):
 *   OPEN <path> <fd>
 *   W <path> <call#> <bytes>            (recording mode, successful write)
 *   SHORT <path> <call#> <written> <asked>
 *   INJECTED <path> <call#> <errno>     a write really failed by our doing
 *   INJECTED-CLOSE <path> <errno>
 *   INJECTED-OPEN <path> <errno>
 *   FAILED <path> <call#> <errno>       a write failed on its own (e.g. /dev/full), any mode
 *   CLOSE <path> <writes>
 */
#define _GNU_SOURCE
#include <dlfcn.h>
#include <errno.h>
#include <fcntl.h>
#include <limits.h>
#include <stdarg.h>
#include <stdio.h>
#include <stdlib.h>
#include <string.h>
#include <sys/syscall.h>
#include <sys/types.h>
#include <sys/uio.h>
#include <unistd.h>

#define MAXFD 1024

static char *fd_path[MAXFD];      /* realpath of the file behind fd, or NULL */
static long path_writes[MAXFD];   /* write calls so far (per fd: outputs are opened once) */
static int failing[MAXFD];        /* persistent failure armed on this fd */

static int inited;
static int log_fd = -1;
static int recording;
static char target[PATH_MAX];
static long fault_k;
static int fault_errno = ENOSPC;
static int mode_short;
static int mode_once;             /* only the K-th write fails */
static int fault_close;
static int fault_open;

static int (*real_open)(const char *, int, ...);
static int (*real_open64)(const char *, int, ...);
static int (*real_openat)(int, const char *, int, ...);
static int (*real_openat64)(int, const char *, int, ...);
static int (*real_creat)(const char *, mode_t);
static int (*real_creat64)(const char *, mode_t);
static FILE *(*real_fopen)(const char *, const char *);
static FILE *(*real_fopen64)(const char *, const char *);
static int (*real_fclose)(FILE *);
static int (*real_close)(int);
static ssize_t (*real_write)(int, const void *, size_t);
static ssize_t (*real_writev)(int, const struct iovec *, int);

static int parse_errno(const char *s) {
  static const struct { const char *n; int v; } tab[] = {
    {"ENOSPC", ENOSPC}, {"EIO", EIO}, {"EDQUOT", EDQUOT}, {"EFBIG", EFBIG},
    {"EPIPE", EPIPE}, {"EBADF", EBADF}, {"EROFS", EROFS}, {"ENOMEM", ENOMEM},
    {"EACCES", EACCES}, {"EPERM", EPERM}, {"ENOENT", ENOENT}, {"EMFILE", EMFILE},
  };
  if (s == NULL || !*s) return ENOSPC;
  for (size_t i = 0; i < sizeof(tab) / sizeof(tab[0]); i++)
    if (strcmp(s, tab[i].n) == 0) return tab[i].v;
  int v = atoi(s);
  return v > 0 ? v : ENOSPC;
}

/* realpath that also works for a file that does not exist yet (resolves the directory) */
static void resolve(const char *p, char *out /* PATH_MAX */) {
  if (realpath(p, out) != NULL) return;
  char tmp[PATH_MAX];
  strncpy(tmp, p, sizeof(tmp) - 1);
  tmp[sizeof(tmp) - 1] = 0;
  char *slash = strrchr(tmp, '/');
  char dir[PATH_MAX];
  if (slash) {
    *slash = 0;
    if (realpath(tmp[0] ? tmp : "/", dir) != NULL && strlen(dir) + strlen(slash + 1) + 2 < PATH_MAX) {
      strcpy(out, dir);
      strcat(out, "/");
      strcat(out, slash + 1);
      return;
    }
  } else if (realpath(".", dir) != NULL && strlen(dir) + strlen(p) + 2 < PATH_MAX) {
    strcpy(out, dir);
    strcat(out, "/");
    strcat(out, p);
    return;
  }
  strncpy(out, p, PATH_MAX - 1);
  out[PATH_MAX - 1] = 0;
}

static void init(void) {
  if (inited) return;
  inited = 1;
  real_open = dlsym(RTLD_NEXT, "open");
  real_open64 = dlsym(RTLD_NEXT, "open64");
  real_openat = dlsym(RTLD_NEXT, "openat");
  real_openat64 = dlsym(RTLD_NEXT, "openat64");
  real_creat = dlsym(RTLD_NEXT, "creat");
  real_creat64 = dlsym(RTLD_NEXT, "creat64");
  real_fopen = dlsym(RTLD_NEXT, "fopen");
  real_fopen64 = dlsym(RTLD_NEXT, "fopen64");
  real_fclose = dlsym(RTLD_NEXT, "fclose");
  real_close = dlsym(RTLD_NEXT, "close");
  real_write = dlsym(RTLD_NEXT, "write");
  real_writev = dlsym(RTLD_NEXT, "writev");

  const char *p = getenv("VF_FAULT_LOG");
  if (p && *p) {
    log_fd = (int)syscall(SYS_openat, AT_FDCWD, p, O_WRONLY | O_CREAT | O_APPEND | O_CLOEXEC, 0644);
    if (log_fd >= 0 && log_fd < 100) {      /* keep it out of the way of the program's fds */
      int hi = (int)syscall(SYS_fcntl, log_fd, F_DUPFD_CLOEXEC, 200);
      if (hi >= 0) { syscall(SYS_close, log_fd); log_fd = hi; }
    }
  }
  p = getenv("VF_FAULT_RECORD");
  recording = (p && *p == '1');
  p = getenv("VF_FAULT_PATH");
  if (p && *p) resolve(p, target);
  p = getenv("VF_FAULT_K");
  fault_k = (p && *p) ? atol(p) : 0;
  fault_errno = parse_errno(getenv("VF_FAULT_ERRNO"));
  p = getenv("VF_FAULT_MODE");
  mode_short = (p && strcmp(p, "short") == 0);
  mode_once = (p && strcmp(p, "once") == 0);
  p = getenv("VF_FAULT_CLOSE");
  fault_close = (p && *p == '1');
  p = getenv("VF_FAULT_OPEN");
  fault_open = (p && *p == '1');
}

static void logf_(const char *fmt, ...) {
  if (log_fd < 0) return;
  char buf[PATH_MAX + 128];
  va_list ap;
  va_start(ap, fmt);
  int n = vsnprintf(buf, sizeof(buf), fmt, ap);
  va_end(ap);
  if (n > (int)sizeof(buf) - 1) n = (int)sizeof(buf) - 1;
  int saved = errno;
  syscall(SYS_write, log_fd, buf, (size_t)n);
  errno = saved;
}

static void track(int fd, const char *path, int writable) {
  if (fd < 0 || fd >= MAXFD || fd == log_fd) return;
  int saved = errno;
  free(fd_path[fd]);
  fd_path[fd] = NULL;
  path_writes[fd] = 0;
  failing[fd] = 0;
  if (writable && path) {
    char rp[PATH_MAX];
    if (realpath(path, rp) != NULL)
      fd_path[fd] = strdup(rp);
    else
      fd_path[fd] = strdup(path);
    if (recording || (target[0] && strcmp(fd_path[fd], target) == 0))
      logf_("OPEN %s %d\n", fd_path[fd], fd);
  }
  errno = saved;
}

/* 1 when opening `path` for writing must fail now (errno set, event logged) */
static int open_fault(const char *path, int writable) {
  if (!fault_open || !writable || !target[0] || path == NULL) return 0;
  char rp[PATH_MAX];
  resolve(path, rp);
  if (strcmp(rp, target) != 0) return 0;
  logf_("INJECTED-OPEN %s %d\n", rp, fault_errno);
  errno = fault_errno;
  return 1;
}

static int is_target(int fd) {
  return fd >= 0 && fd < MAXFD && fd_path[fd] != NULL && target[0] && strcmp(fd_path[fd], target) == 0;
}

static int flags_writable(int flags) {
  return (flags & O_ACCMODE) == O_WRONLY || (flags & O_ACCMODE) == O_RDWR;
}

static int mode_writable(const char *m) {
  return m && (strchr(m, 'w') || strchr(m, 'a') || strchr(m, '+'));
}

#define OPEN_BODY(REAL, CALLARGS)                                   \
  mode_t mode = 0;                                                  \
  if (flags & (O_CREAT | O_TMPFILE)) {                              \
    va_list ap; va_start(ap, flags); mode = va_arg(ap, mode_t); va_end(ap); \
  }                                                                 \
  init();                                                           \
  if (open_fault(path, flags_writable(flags))) return -1;           \
  int fd = REAL CALLARGS;                                           \
  track(fd, path, flags_writable(flags));                           \
  return fd;

int open(const char *path, int flags, ...) { OPEN_BODY(real_open, (path, flags, mode)) }
int open64(const char *path, int flags, ...) { OPEN_BODY(real_open64, (path, flags, mode)) }

int openat(int dirfd, const char *path, int flags, ...) {
  mode_t mode = 0;
  if (flags & (O_CREAT | O_TMPFILE)) { va_list ap; va_start(ap, flags); mode = va_arg(ap, mode_t); va_end(ap); }
  init();
  int fd = real_openat(dirfd, path, flags, mode);
  track(fd, (dirfd == AT_FDCWD || path[0] == '/') ? path : NULL, flags_writable(flags));
  return fd;
}

int openat64(int dirfd, const char *path, int flags, ...) {
  mode_t mode = 0;
  if (flags & (O_CREAT | O_TMPFILE)) { va_list ap; va_start(ap, flags); mode = va_arg(ap, mode_t); va_end(ap); }
  init();
  int fd = real_openat64(dirfd, path, flags, mode);
  track(fd, (dirfd == AT_FDCWD || path[0] == '/') ? path : NULL, flags_writable(flags));
  return fd;
}

int creat(const char *path, mode_t mode) {
  init();
  int fd = real_creat(path, mode);
  track(fd, path, 1);
  return fd;
}

int creat64(const char *path, mode_t mode) {
  init();
  int fd = real_creat64(path, mode);
  track(fd, path, 1);
  return fd;
}

FILE *fopen(const char *path, const char *m) {
  init();
  if (open_fault(path, mode_writable(m))) return NULL;
  FILE *f = real_fopen(path, m);
  if (f) track(fileno(f), path, mode_writable(m));
  return f;
}

FILE *fopen64(const char *path, const char *m) {
  init();
  if (open_fault(path, mode_writable(m))) return NULL;
  FILE *f = real_fopen64(path, m);
  if (f) track(fileno(f), path, mode_writable(m));
  return f;
}

static void untrack(int fd) {
  if (fd >= 0 && fd < MAXFD && fd_path[fd]) {
    if (recording || is_target(fd))
      logf_("CLOSE %s %ld\n", fd_path[fd], path_writes[fd]);
    free(fd_path[fd]);
    fd_path[fd] = NULL;
    path_writes[fd] = 0;
    failing[fd] = 0;
  }
}

int close(int fd) {
  init();
  if (fd == log_fd) { errno = EBADF; return -1; }
  int hit = fault_close && is_target(fd);
  char *p = hit ? strdup(fd_path[fd]) : NULL;
  untrack(fd);
  int r = real_close(fd);
  if (hit) {
    logf_("INJECTED-CLOSE %s %d\n", p, fault_errno);
    free(p);
    errno = fault_errno;
    return -1;
  }
  return r;
}

int fclose(FILE *f) {
  init();
  int fd = f ? fileno(f) : -1;
  int hit = fault_close && is_target(fd);
  char *p = hit ? strdup(fd_path[fd]) : NULL;
  /* stdio may still flush through our write() during the real fclose: keep the
     mapping until it returns */
  int r = real_fclose(f);
  untrack(fd);
  if (hit) {
    logf_("INJECTED-CLOSE %s %d\n", p, fault_errno);
    free(p);
    errno = fault_errno;
    return EOF;
  }
  return r;
}

/* returns 1 when this call must fail now (errno set), 2 when it must be short */
static int decide(int fd, long *callno) {
  long n = ++path_writes[fd];
  *callno = n;
  if (!is_target(fd)) return 0;
  if (failing[fd]) return 1;
  if (fault_k > 0 && n == fault_k) {
    if (mode_short) { failing[fd] = 1; return 2; }
    if (!mode_once) failing[fd] = 1;
    return 1;
  }
  return 0;
}

ssize_t write(int fd, const void *buf, size_t count) {
  init();
  if (fd < 0 || fd >= MAXFD || fd_path[fd] == NULL)
    return real_write(fd, buf, count);
  long n;
  int d = decide(fd, &n);
  if (d == 1) {
    logf_("INJECTED %s %ld %d\n", fd_path[fd], n, fault_errno);
    errno = fault_errno;
    return -1;
  }
  if (d == 2 && count >= 2) {
    ssize_t w = real_write(fd, buf, count / 2);
    logf_("SHORT %s %ld %ld %lu\n", fd_path[fd], n, (long)w, (unsigned long)count);
    return w;
  }
  ssize_t w = real_write(fd, buf, count);
  if (w < 0) logf_("FAILED %s %ld %d\n", fd_path[fd], n, errno);
  else if (recording) logf_("W %s %ld %ld\n", fd_path[fd], n, (long)w);
  return w;
}

ssize_t writev(int fd, const struct iovec *iov, int iovcnt) {
  init();
  if (fd < 0 || fd >= MAXFD || fd_path[fd] == NULL)
    return real_writev(fd, iov, iovcnt);
  long n;
  int d = decide(fd, &n);
  if (d == 1) {
    logf_("INJECTED %s %ld %d\n", fd_path[fd], n, fault_errno);
    errno = fault_errno;
    return -1;
  }
  if (d == 2 && iovcnt >= 1 && iov[0].iov_len >= 2) {
    size_t total = 0;
    for (int i = 0; i < iovcnt; i++) total += iov[i].iov_len;
    ssize_t w = real_write(fd, iov[0].iov_base, iov[0].iov_len / 2);
    logf_("SHORT %s %ld %ld %lu\n", fd_path[fd], n, (long)w, (unsigned long)total);
    return w;
  }
  ssize_t w = real_writev(fd, iov, iovcnt);
  if (w < 0) logf_("FAILED %s %ld %d\n", fd_path[fd], n, errno);
  else if (recording) logf_("W %s %ld %ld\n", fd_path[fd], n, (long)w);
  return w;
}
