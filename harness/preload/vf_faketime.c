// LD_PRELOAD: time() returns VF_FAKE_TIME (for builds where malloc must not be replaced, e.g. ASan).
#define _GNU_SOURCE
#include <stdlib.h>
#include <time.h>
time_t time(time_t *t) {
  const char *s = getenv("VF_FAKE_TIME");
  time_t v;
  if (s) v = (time_t)strtoll(s, 0, 10);
  else { struct timespec ts; clock_gettime(CLOCK_REALTIME, &ts); v = ts.tv_sec; }
  if (t) *t = v;
  return v;
}
