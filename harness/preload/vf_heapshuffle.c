// LD_PRELOAD heap perturbation: every allocation is served from one of 8 arenas mapped at unrelated addresses,
// chosen pseudo-randomly (seed: VF_HEAP_SEED), and memory is never reused.  The relative order of any two heap
// pointers is therefore random per seed, which exposes output that depends on pointer order.
// Also interposes time() when VF_FAKE_TIME is set.
#define _GNU_SOURCE
#include <errno.h>
#include <stddef.h>
#include <stdint.h>
#include <stdlib.h>
#include <string.h>
#include <sys/mman.h>
#include <time.h>
#include <unistd.h>

#define NARENA 8
#define ARENA_SIZE (1ull << 31)
static char *arena[NARENA];
static size_t used[NARENA];
static uint64_t rng_state;
static int inited;

static uint64_t rnd(void) {
  rng_state ^= rng_state << 13; rng_state ^= rng_state >> 7; rng_state ^= rng_state << 17;
  return rng_state;
}
static void init(void) {
  if (inited) return;
  inited = 1;
  const char *s = getenv("VF_HEAP_SEED");
  rng_state = 88172645463325252ull ^ (s ? strtoull(s, 0, 10) * 0x9E3779B97F4A7C15ull : 0);
  if (!rng_state) rng_state = 1;
  for (int i = 0; i < NARENA; ++i) {
    // place arenas in a seed-dependent order in the address space
    uintptr_t hint = 0x100000000000ull + ((rnd() % 4096) << 32);
    void *p = mmap((void *)hint, ARENA_SIZE, PROT_READ | PROT_WRITE, MAP_PRIVATE | MAP_ANONYMOUS | MAP_NORESERVE, -1, 0);
    if (p == MAP_FAILED) { static const char m[] = "vf_heapshuffle: mmap failed\n"; (void)!write(2, m, sizeof m - 1); _exit(99); }
    arena[i] = (char *)p;
    used[i] = 0;
  }
}
static void *alloc(size_t n, size_t align) {
  init();
  if (align < 16) align = 16;
  if (n == 0) n = 1;
  int a = (int)(rnd() % NARENA);
  for (int tries = 0; tries < NARENA; ++tries, a = (a + 1) % NARENA) {
    size_t off = used[a] + 16;                       // room for the size header
    off = (off + align - 1) & ~(align - 1);
    if (off + n <= ARENA_SIZE) {
      used[a] = off + n;
      ((size_t *)(arena[a] + off))[-1] = n;
      return arena[a] + off;
    }
  }
  errno = ENOMEM;
  return 0;
}
void *malloc(size_t n) { return alloc(n, 16); }
void *calloc(size_t a, size_t b) { size_t n = a * b; if (b && n / b != a) { errno = ENOMEM; return 0; } return alloc(n, 16); }
void free(void *p) { (void)p; }
void cfree(void *p) { (void)p; }
void *realloc(void *p, size_t n) {
  if (!p) return alloc(n, 16);
  size_t old = ((size_t *)p)[-1];
  if (n <= old) return p;
  void *q = alloc(n, 16);
  if (q) memcpy(q, p, old);
  return q;
}
void *memalign(size_t al, size_t n) { return alloc(n, al); }
void *aligned_alloc(size_t al, size_t n) { return alloc(n, al); }
int posix_memalign(void **out, size_t al, size_t n) { void *p = alloc(n, al); if (!p) return ENOMEM; *out = p; return 0; }
void *valloc(size_t n) { return alloc(n, 4096); }
size_t malloc_usable_size(void *p) { return p ? ((size_t *)p)[-1] : 0; }

time_t time(time_t *t) {
  const char *s = getenv("VF_FAKE_TIME");
  time_t v;
  if (s) v = (time_t)strtoll(s, 0, 10);
  else { struct timespec ts; clock_gettime(CLOCK_REALTIME, &ts); v = ts.tv_sec; }
  if (t) *t = v;
  return v;
}
