// idbdump: load .in files through the public request interface and dump
// everything reachable through the extern "C" query interface as JSON.
//   idbdump [--rewrite OUT] file.in...
// With --rewrite (one file), additionally re-serialise the loaded database
// through InterrogateDatabase::write into OUT (module def taken from the file's
// own header so the result is comparable byte-for-byte with the input).
#include "interrogate_interface.h"
#include "interrogate_request.h"
#include "interrogateDatabase.h"
#include <cstdio>
#include <cstring>
#include <fstream>
#include <iostream>
#include <sstream>
#include <string>
#include <vector>

static void js(std::ostream &o, const char *s) {
  if (!s) { o << "null"; return; }
  o << '"';
  for (const unsigned char *p = (const unsigned char *)s; *p; ++p) {
    unsigned char c = *p;
    if (c == '"' || c == '\\') { o << '\\' << c; }
    else if (c < 0x20 || c >= 0x7f) { char b[8]; snprintf(b, sizeof b, "\\u%04x", c); o << b; }
    else o << c;
  }
  o << '"';
}
#define K(name) o << ",\"" name "\":"
#define KS(name, v) do { K(name); js(o, v); } while (0)
#define KI(name, v) do { K(name); o << (long long)(v); } while (0)
#define KB(name, v) do { K(name); o << ((v) ? "true" : "false"); } while (0)

static void dump_wrapper(std::ostream &o, int w) {
  o << "{\"index\":" << w;
  KS("name", interrogate_wrapper_name(w));
  KI("function", interrogate_wrapper_function(w));
  KB("callable_by_name", interrogate_wrapper_is_callable_by_name(w));
  KB("copy_constructor", interrogate_wrapper_is_copy_constructor(w));
  KB("coerce_constructor", interrogate_wrapper_is_coerce_constructor(w));
  KB("extension", interrogate_wrapper_is_extension(w));
  KB("deprecated", interrogate_wrapper_is_deprecated(w));
  KB("has_comment", interrogate_wrapper_has_comment(w));
  KS("comment", interrogate_wrapper_comment(w));
  KB("has_return_value", interrogate_wrapper_has_return_value(w));
  KI("return_type", interrogate_wrapper_return_type(w));
  KB("caller_manages", interrogate_wrapper_caller_manages_return_value(w));
  KI("return_value_destructor", interrogate_wrapper_return_value_destructor(w));
  KB("has_pointer", interrogate_wrapper_has_pointer(w));
  KS("unique_name", interrogate_wrapper_unique_name(w));
  K("params"); o << "[";
  int n = interrogate_wrapper_number_of_parameters(w);
  for (int i = 0; i < n; ++i) {
    if (i) o << ",";
    o << "{\"type\":" << interrogate_wrapper_parameter_type(w, i);
    KB("has_name", interrogate_wrapper_parameter_has_name(w, i));
    KS("name", interrogate_wrapper_parameter_name(w, i));
    KB("is_this", interrogate_wrapper_parameter_is_this(w, i));
    KB("is_optional", interrogate_wrapper_parameter_is_optional(w, i));
    o << "}";
  }
  o << "]}";
}

static void dump_function(std::ostream &o, int f) {
  o << "{\"index\":" << f;
  KS("name", interrogate_function_name(f));
  KS("scoped_name", interrogate_function_scoped_name(f));
  KB("has_comment", interrogate_function_has_comment(f));
  KS("comment", interrogate_function_comment(f));
  KS("prototype", interrogate_function_prototype(f));
  KB("is_method", interrogate_function_is_method(f));
  KI("class", interrogate_function_class(f));
  KB("is_unary_op", interrogate_function_is_unary_op(f));
  KB("is_operator_typecast", interrogate_function_is_operator_typecast(f));
  KB("is_constructor", interrogate_function_is_constructor(f));
  KB("is_destructor", interrogate_function_is_destructor(f));
  KB("is_virtual", interrogate_function_is_virtual(f));
  KB("has_module_name", interrogate_function_has_module_name(f));
  KS("module_name", interrogate_function_module_name(f));
  KB("has_library_name", interrogate_function_has_library_name(f));
  KS("library_name", interrogate_function_library_name(f));
  K("c_wrappers"); o << "[";
  int n = interrogate_function_number_of_c_wrappers(f);
  for (int i = 0; i < n; ++i) { if (i) o << ","; o << interrogate_function_c_wrapper(f, i); }
  o << "]";
  K("python_wrappers"); o << "[";
  n = interrogate_function_number_of_python_wrappers(f);
  for (int i = 0; i < n; ++i) { if (i) o << ","; o << interrogate_function_python_wrapper(f, i); }
  o << "]}";
}

static void dump_element(std::ostream &o, int e) {
  o << "{\"index\":" << e;
  KS("name", interrogate_element_name(e));
  KS("scoped_name", interrogate_element_scoped_name(e));
  KB("has_comment", interrogate_element_has_comment(e));
  KS("comment", interrogate_element_comment(e));
  KI("type", interrogate_element_type(e));
  KB("has_getter", interrogate_element_has_getter(e));
  KI("getter", interrogate_element_getter(e));
  KB("has_setter", interrogate_element_has_setter(e));
  KI("setter", interrogate_element_setter(e));
  KB("has_has_function", interrogate_element_has_has_function(e));
  KI("has_function", interrogate_element_has_function(e));
  KB("has_clear_function", interrogate_element_has_clear_function(e));
  KI("clear_function", interrogate_element_clear_function(e));
  KB("has_del_function", interrogate_element_has_del_function(e));
  KI("del_function", interrogate_element_del_function(e));
  KB("has_insert_function", interrogate_element_has_insert_function(e));
  KI("insert_function", interrogate_element_insert_function(e));
  KB("has_getkey_function", interrogate_element_has_getkey_function(e));
  KI("getkey_function", interrogate_element_getkey_function(e));
  KI("length_function", interrogate_element_length_function(e));
  KB("is_sequence", interrogate_element_is_sequence(e));
  KB("is_mapping", interrogate_element_is_mapping(e));
  o << "}";
}

static void dump_make_seq(std::ostream &o, int m) {
  o << "{\"index\":" << m;
  KS("seq_name", interrogate_make_seq_seq_name(m));
  KS("scoped_name", interrogate_make_seq_scoped_name(m));
  KB("has_comment", interrogate_make_seq_has_comment(m));
  KS("comment", interrogate_make_seq_comment(m));
  KS("num_name", interrogate_make_seq_num_name(m));
  KS("element_name", interrogate_make_seq_element_name(m));
  KI("num_getter", interrogate_make_seq_num_getter(m));
  KI("element_getter", interrogate_make_seq_element_getter(m));
  o << "}";
}

static void dump_manifest(std::ostream &o, int m) {
  o << "{\"index\":" << m;
  KS("name", interrogate_manifest_name(m));
  KS("definition", interrogate_manifest_definition(m));
  KB("has_type", interrogate_manifest_has_type(m));
  KI("type", interrogate_manifest_get_type(m));
  KB("has_getter", interrogate_manifest_has_getter(m));
  KI("getter", interrogate_manifest_getter(m));
  KB("has_int_value", interrogate_manifest_has_int_value(m));
  KI("int_value", interrogate_manifest_get_int_value(m));
  o << "}";
}

static void ilist(std::ostream &o, const char *name, int n, int (*get)(int, int), int t) {
  o << ",\"" << name << "\":[";
  for (int i = 0; i < n; ++i) { if (i) o << ","; o << get(t, i); }
  o << "]";
}

static void dump_type(std::ostream &o, int t) {
  o << "{\"index\":" << t;
  KS("name", interrogate_type_name(t));
  KS("scoped_name", interrogate_type_scoped_name(t));
  KS("true_name", interrogate_type_true_name(t));
  KB("is_global", interrogate_type_is_global(t));
  KB("is_deprecated", interrogate_type_is_deprecated(t));
  KB("is_nested", interrogate_type_is_nested(t));
  KI("outer_class", interrogate_type_outer_class(t));
  KB("has_comment", interrogate_type_has_comment(t));
  KS("comment", interrogate_type_comment(t));
  KB("has_module_name", interrogate_type_has_module_name(t));
  KS("module_name", interrogate_type_module_name(t));
  KB("has_library_name", interrogate_type_has_library_name(t));
  KS("library_name", interrogate_type_library_name(t));
  KB("is_atomic", interrogate_type_is_atomic(t));
  KI("atomic_token", interrogate_type_atomic_token(t));
  KB("is_unsigned", interrogate_type_is_unsigned(t));
  KB("is_signed", interrogate_type_is_signed(t));
  KB("is_long", interrogate_type_is_long(t));
  KB("is_longlong", interrogate_type_is_longlong(t));
  KB("is_short", interrogate_type_is_short(t));
  KB("is_wrapped", interrogate_type_is_wrapped(t));
  KB("is_pointer", interrogate_type_is_pointer(t));
  KB("is_const", interrogate_type_is_const(t));
  KB("is_typedef", interrogate_type_is_typedef(t));
  KI("wrapped_type", interrogate_type_wrapped_type(t));
  KB("is_array", interrogate_type_is_array(t));
  KI("array_size", interrogate_type_array_size(t));
  KB("is_enum", interrogate_type_is_enum(t));
  KB("is_scoped_enum", interrogate_type_is_scoped_enum(t));
  K("enum_values"); o << "[";
  int n = interrogate_type_number_of_enum_values(t);
  for (int i = 0; i < n; ++i) {
    if (i) o << ",";
    o << "{\"name\":"; js(o, interrogate_type_enum_value_name(t, i));
    KS("scoped_name", interrogate_type_enum_value_scoped_name(t, i));
    KS("comment", interrogate_type_enum_value_comment(t, i));
    KI("value", interrogate_type_enum_value(t, i));
    o << "}";
  }
  o << "]";
  KB("is_struct", interrogate_type_is_struct(t));
  KB("is_class", interrogate_type_is_class(t));
  KB("is_union", interrogate_type_is_union(t));
  KB("is_fully_defined", interrogate_type_is_fully_defined(t));
  KB("is_unpublished", interrogate_type_is_unpublished(t));
  KB("is_final", interrogate_type_is_final(t));
  ilist(o, "constructors", interrogate_type_number_of_constructors(t), interrogate_type_get_constructor, t);
  KB("has_destructor", interrogate_type_has_destructor(t));
  KB("destructor_is_inherited", interrogate_type_destructor_is_inherited(t));
  KI("destructor", interrogate_type_get_destructor(t));
  ilist(o, "elements", interrogate_type_number_of_elements(t), interrogate_type_get_element, t);
  ilist(o, "methods", interrogate_type_number_of_methods(t), interrogate_type_get_method, t);
  ilist(o, "make_seqs", interrogate_type_number_of_make_seqs(t), interrogate_type_get_make_seq, t);
  ilist(o, "casts", interrogate_type_number_of_casts(t), interrogate_type_get_cast, t);
  ilist(o, "nested_types", interrogate_type_number_of_nested_types(t), interrogate_type_get_nested_type, t);
  K("derivations"); o << "[";
  n = interrogate_type_number_of_derivations(t);
  for (int i = 0; i < n; ++i) {
    if (i) o << ",";
    o << "{\"base\":" << interrogate_type_get_derivation(t, i);
    KB("has_upcast", interrogate_type_derivation_has_upcast(t, i));
    KI("upcast", interrogate_type_get_upcast(t, i));
    KB("downcast_is_impossible", interrogate_type_derivation_downcast_is_impossible(t, i));
    KB("has_downcast", interrogate_type_derivation_has_downcast(t, i));
    KI("downcast", interrogate_type_get_downcast(t, i));
    o << "}";
  }
  o << "]}";
}

#include <set>

int main(int argc, char **argv) {
  std::string rewrite;
  std::vector<std::string> files;
  for (int i = 1; i < argc; ++i) {
    if (!strcmp(argv[i], "--rewrite") && i + 1 < argc) rewrite = argv[++i];
    else files.push_back(argv[i]);
  }
  std::vector<InterrogateModuleDef *> defs;
  for (auto &f : files) {
    interrogate_request_database(f.c_str());
  }
  std::ostream &o = std::cout;
  // enumerations first (this triggers the lazy load)
  int ntypes = interrogate_number_of_types();
  o << "{\"error_flag\":" << (interrogate_error_flag() ? "true" : "false");
  InterrogateDatabase *db = InterrogateDatabase::get_ptr();
  KI("next_index", db->get_next_index());
  std::set<int> types, funcs, wrappers, elements, manifests, seqs;
  K("all_types"); o << "[";
  for (int i = 0; i < ntypes; ++i) { int t = interrogate_get_type(i); if (i) o << ","; o << t; types.insert(t); }
  o << "]";
  K("global_types"); o << "[";
  for (int i = 0, n = interrogate_number_of_global_types(); i < n; ++i) { int t = interrogate_get_global_type(i); if (i) o << ","; o << t; types.insert(t); }
  o << "]";
  K("all_functions"); o << "[";
  for (int i = 0, n = interrogate_number_of_functions(); i < n; ++i) { int t = interrogate_get_function(i); if (i) o << ","; o << t; funcs.insert(t); }
  o << "]";
  K("global_functions"); o << "[";
  for (int i = 0, n = interrogate_number_of_global_functions(); i < n; ++i) { int t = interrogate_get_global_function(i); if (i) o << ","; o << t; funcs.insert(t); }
  o << "]";
  K("globals"); o << "[";
  for (int i = 0, n = interrogate_number_of_globals(); i < n; ++i) { int t = interrogate_get_global(i); if (i) o << ","; o << t; elements.insert(t); }
  o << "]";
  K("manifest_list"); o << "[";
  for (int i = 0, n = interrogate_number_of_manifests(); i < n; ++i) { int t = interrogate_get_manifest(i); if (i) o << ","; o << t; manifests.insert(t); }
  o << "]";
  // closure by reachability through the interface
  for (int t : std::set<int>(types)) {
    for (int i = 0, n = interrogate_type_number_of_elements(t); i < n; ++i) elements.insert(interrogate_type_get_element(t, i));
    for (int i = 0, n = interrogate_type_number_of_make_seqs(t); i < n; ++i) seqs.insert(interrogate_type_get_make_seq(t, i));
    for (int i = 0, n = interrogate_type_number_of_constructors(t); i < n; ++i) funcs.insert(interrogate_type_get_constructor(t, i));
    for (int i = 0, n = interrogate_type_number_of_methods(t); i < n; ++i) funcs.insert(interrogate_type_get_method(t, i));
    for (int i = 0, n = interrogate_type_number_of_casts(t); i < n; ++i) funcs.insert(interrogate_type_get_cast(t, i));
    if (interrogate_type_has_destructor(t)) funcs.insert(interrogate_type_get_destructor(t));
    for (int i = 0, n = interrogate_type_number_of_derivations(t); i < n; ++i) {
      if (interrogate_type_derivation_has_upcast(t, i)) funcs.insert(interrogate_type_get_upcast(t, i));
      if (interrogate_type_derivation_has_downcast(t, i)) funcs.insert(interrogate_type_get_downcast(t, i));
    }
  }
  for (int e : elements) {
    if (interrogate_element_has_getter(e)) funcs.insert(interrogate_element_getter(e));
    if (interrogate_element_has_setter(e)) funcs.insert(interrogate_element_setter(e));
  }
  for (int m : manifests) if (interrogate_manifest_has_getter(m)) funcs.insert(interrogate_manifest_getter(m));
  funcs.erase(0);
  for (int f : funcs) {
    for (int i = 0, n = interrogate_function_number_of_c_wrappers(f); i < n; ++i) wrappers.insert(interrogate_function_c_wrapper(f, i));
    for (int i = 0, n = interrogate_function_number_of_python_wrappers(f); i < n; ++i) wrappers.insert(interrogate_function_python_wrapper(f, i));
  }
  types.erase(0); elements.erase(0); seqs.erase(0); wrappers.erase(0); manifests.erase(0);
  bool first;
  K("types"); o << "["; first = true; for (int t : types) { if (!first) o << ","; first = false; dump_type(o, t); } o << "]";
  K("functions"); o << "["; first = true; for (int t : funcs) { if (!first) o << ","; first = false; dump_function(o, t); } o << "]";
  K("wrappers"); o << "["; first = true; for (int t : wrappers) { if (!first) o << ","; first = false; dump_wrapper(o, t); } o << "]";
  K("elements"); o << "["; first = true; for (int t : elements) { if (!first) o << ","; first = false; dump_element(o, t); } o << "]";
  K("make_seqs"); o << "["; first = true; for (int t : seqs) { if (!first) o << ","; first = false; dump_make_seq(o, t); } o << "]";
  K("manifests"); o << "["; first = true; for (int t : manifests) { if (!first) o << ","; first = false; dump_manifest(o, t); } o << "]";
  KB("error_flag_after", interrogate_error_flag());
  o << "}\n";

  if (!rewrite.empty() && files.size() == 1) {
    // Re-read the header of the file to recover identifier/library/module.
    std::ifstream in(files[0].c_str());
    int ident = 0, major = 0, minor = 0;
    in >> ident >> major >> minor;
    // library, hash and module names follow as length-prefixed strings
    auto rd = [&](std::string &dst) {
      int len = 0; in >> len; in.get(); dst.resize(len > 0 ? len : 0);
      if (len > 0) in.read(&dst[0], len);
    };
    std::string lib, hash, mod;
    rd(lib); rd(hash); rd(mod);
    InterrogateModuleDef def;
    memset(&def, 0, sizeof def);
    def.file_identifier = ident;
    def.library_name = lib.c_str();
    def.library_hash_name = hash.c_str();
    def.module_name = mod.c_str();
    std::ofstream out(rewrite.c_str(), std::ios::binary);
    db->write(out, &def);
    out.close();
  }
  return 0;
}
