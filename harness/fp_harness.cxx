// fp_harness -- drives pdtoa()/pstrtod() of panda3d/interrogate against glibc's correctly rounded
// strtod (C locale, through strtod_l) and reports disagreements by class (property C18).
//
//   fp_harness [--locale] fmt   <stratum> <seed> <count>     formatter round trip  strtod(pdtoa(x)) == x
//   fp_harness [--locale] parse <stratum> <seed> <count>     parser  pstrtod(s) == strtod(s)
//   fp_harness [--locale] f32   <lo> <hi> [parse-every]      every float32 bit pattern in [lo,hi) widened to double
//   fp_harness [--locale] eval  <literal>...                 one line per literal (used by the end-to-end monitor)
//   fp_harness [--locale] fmtbits <hex64>...                 formatter on given bit patterns
//   fp_harness [--locale] lit                                 end-to-end oracle; reads TAB separated lines
//        <id> <source digits> <suffix: - f l> <param type: f d l> <sign: + -> <emitted text>
//      and prints  LIT <id> <ok|bad|ambiguous|unparsable> want=<hex64> got=<hex64> err=<none|ulps|gross> cause=<none|pstrtod|other>
//      want = the double (float for a float parameter, widened) the compiler gives the parameter when it is
//      initialised from the source literal; got = the same for the emitted text; both through glibc
//      strtod/strtof/strtold in the C locale.  cause=pstrtod: the emitted value is exactly what a faithful
//      print of pstrtod(source) gives, i.e. the pipeline carried pstrtod's mis-parse through.
//
// --locale: the process calls setlocale(LC_ALL, "") first and insists that the decimal point it got is ','
// (the caller provides LOCPATH/LC_ALL for a synthesised comma-decimal locale); exit 3 otherwise.
//
// Environment: FP_TRACE=<file>: before every check the current input is written at offset 0 of <file>, so that
// after a crash (sanitizer report) the monitor learns which input was being processed.
//
// Output (stdout), machine readable:
//   LOCALE <decimal point char>
//   N <inputs checked>
//   FEAT <signature> <count>          distinct input/format classes actually exercised
//   FAIL <key> in=<input> got=<hex64> want=<hex64> [min=<minimal literal>]    (first few per key)
//   FAILCOUNT <key> <n>
//   UNMINIMISED <n>                   failing parser inputs beyond the first 64 of their fine class (not keyed)
//   SAMPLE <first few inputs and what came out>
// Exit status: 0 the sweep ran (failures are lines, not exit codes); 2 usage; 3 locale not active.
//
// Failure keys are built from a finite alphabet:
//   pdtoa-roundtrip:err=<ulps|gross>,fmt=<fixed-int|fixed-frac|small-frac|exp1|exp|special>,val=<subnormal|normal>
//   pdtoa-unparsable:fmt=...      (strtod does not consume the whole output)
//   pdtoa-not-float-form:fmt=...  (neither '.' nor 'e': would denote an integer in C++)
//   pdtoa-overlong:fmt=...        (>= 32 bytes: the buffer CPPExpression::output gives it)
//   pdtoa-locale-dependent / pstrtod-locale-dependent   (fails only under the comma locale)
//   pstrtod-misrounded:err=ulps,<int|frac>,<noexp|exp>,<digits<=15|digits>=16>       (<= 4096 ulp off)
//   pstrtod-misrounded:err=gross,<noexp|exp+|exp->,want=<zero|subnormal|normal|inf>,got=<zero|inf|nan|finite>
//   pstrtod-misrounded:err=<ulps|gross>,form=malformed
//   pstrtod-endptr:<int|int-point|frac>,<noexp|exp>,suffix=<none|f|l>
//   pstrtod-locale-dependent:<err=ulps|err=gross|endptr>
// The parser witness is minimised (drop sign/suffix/exponent, shrink exponent, drop digits) while the same
// error class persists, and the key is computed from the minimal literal.

#include "pdtoa.h"
#include "pstrtod.h"

#include <errno.h>
#include <locale.h>
#include <math.h>
#include <stdint.h>
#include <stdio.h>
#include <stdlib.h>
#include <string.h>
#include <fcntl.h>
#include <unistd.h>

#include <map>
#include <string>
#include <vector>

static locale_t c_loc;
static bool comma_mode = false;

static inline uint64_t bits(double d) { uint64_t u; memcpy(&u, &d, 8); return u; }
static inline double from_bits(uint64_t u) { double d; memcpy(&d, &u, 8); return d; }

struct Rng {
  uint64_t s;
  explicit Rng(uint64_t seed) : s(seed * 0x9E3779B97F4A7C15ull + 0x1234567ull) {}
  uint64_t next() {
    uint64_t z = (s += 0x9E3779B97F4A7C15ull);
    z = (z ^ (z >> 30)) * 0xBF58476D1CE4E5B9ull;
    z = (z ^ (z >> 27)) * 0x94D049BB133111EBull;
    return z ^ (z >> 31);
  }
  uint64_t below(uint64_t n) { return n ? next() % n : 0; }
  int range(int lo, int hi) { return lo + (int)below((uint64_t)(hi - lo + 1)); }
  bool chance(int pct) { return (int)below(100) < pct; }
};

// ---------------------------------------------------------------------------------------------
// bookkeeping
// ---------------------------------------------------------------------------------------------

static uint64_t n_checked = 0;
static uint64_t n_unminimised = 0;
static std::map<std::string, uint64_t> feats;
static std::map<std::string, uint64_t> failcount;
static std::map<std::string, std::vector<std::string> > failsamples;

static int trace_fd = -1;
static void trace(const char *what, const char *in) {
  if (trace_fd < 0) return;
  char rec[256];
  memset(rec, ' ', sizeof(rec));
  int n = snprintf(rec, sizeof(rec), "%s %.200s", what, in);
  if (n > 0 && n < (int)sizeof(rec)) rec[n] = ' ';
  rec[sizeof(rec) - 1] = '\n';
  if (pwrite(trace_fd, rec, sizeof(rec), 0) < 0) trace_fd = -1;
}

static std::vector<std::string> samples;
static inline void sample(const std::string &s) { if (samples.size() < 4) samples.push_back(s); }

static void fail(const std::string &key, const std::string &line) {
  uint64_t &n = failcount[key];
  ++n;
  if (n <= 3) failsamples[key].push_back(line);
}

static std::string hex64(uint64_t u) {
  char b[32];
  snprintf(b, sizeof(b), "%016llx", (unsigned long long)u);
  return b;
}

// ordered distance in units in the last place between two finite doubles
static uint64_t ulp_distance(double a, double b) {
  int64_t ia = (int64_t)bits(a), ib = (int64_t)bits(b);
  if (ia < 0) ia = (int64_t)0x8000000000000000ull - ia;
  if (ib < 0) ib = (int64_t)0x8000000000000000ull - ib;
  __int128 d = (__int128)ia - (__int128)ib;
  if (d < 0) d = -d;
  return d > (__int128)0xFFFFFFFFFFFFFFFull ? 0xFFFFFFFFFFFFFFFull : (uint64_t)d;
}

static const char *err_class(double got, double want) {
  if (isnan(got) || isnan(want) || isinf(got) || isinf(want)) return "gross";
  if ((got == 0.0) != (want == 0.0)) return "gross";
  if (signbit(got) != signbit(want)) return "gross";
  uint64_t d = ulp_distance(got, want);
  if (d <= 4096) return "ulps";
  return "gross";
}

static const char *val_class(double v) {
  if (v == 0.0) return "zero";
  if (isinf(v)) return "inf";
  if (isnan(v)) return "nan";
  if (fabs(v) < 2.2250738585072014e-308) return "subnormal";
  return "normal";
}

// ---------------------------------------------------------------------------------------------
// formatter
// ---------------------------------------------------------------------------------------------

static const char *fmt_class(const char *s) {
  if (*s == '-') ++s;
  if (!(*s >= '0' && *s <= '9')) return "special";
  const char *e = strchr(s, 'e');
  const char *p = strchr(s, '.');
  if (e != NULL) return (p == NULL) ? "exp1" : "exp";
  if (p == NULL) return "fixed-int";
  if (s[0] == '0' && s[1] == '.') return "small-frac";
  if (strcmp(p, ".0") == 0) return "fixed-int";
  return "fixed-frac";
}

static int count_digits(const char *s) {
  int n = 0;
  bool lead = true;
  for (; *s && *s != 'e'; ++s) {
    if (*s >= '1' && *s <= '9') { lead = false; ++n; }
    else if (*s == '0' && !lead) ++n;
  }
  return n;
}

static double pstrtod_in_c_locale(const char *s, char **end) {
  locale_t old = uselocale(c_loc);
  double r = pstrtod(s, end);
  uselocale(old);
  return r;
}

static void check_fmt(double x, const char *stratum) {
  // the smallest buffer a caller in the tree hands to pdtoa is char[32] (CPPExpression::output); in the
  // ASan build an overrun of this heap block is reported by the sanitizer itself
  static thread_local char *buf = NULL;
  if (buf == NULL) buf = (char *)malloc(32);
  memset(buf, 0x7f, 31);
  buf[31] = 0;
  if (trace_fd >= 0) trace("fmtbits", hex64(bits(x)).c_str());
  pdtoa(x, buf);
  ++n_checked;
  size_t len = strnlen(buf, 32);
  const char *fc = fmt_class(buf);
  if (len >= 32) {
    fail(std::string("pdtoa-overlong:fmt=") + fc, "in=" + hex64(bits(x)));
    return;
  }
  char *end = NULL;
  double y = strtod_l(buf, &end, c_loc);
  int nd = count_digits(buf);
  {
    char sig[96];
    snprintf(sig, sizeof(sig), "fmt:%s:%s:%s:digits%s", stratum, fc, val_class(x),
             nd <= 1 ? "1" : nd <= 15 ? "2-15" : nd == 16 ? "16" : "17+");
    ++feats[sig];
  }
  if (samples.size() < 4) sample("pdtoa(0x" + hex64(bits(x)) + ") = " + buf);
  std::string key;
  if (*end != 0 || end == buf) {
    key = std::string("pdtoa-unparsable:fmt=") + fc;
  } else if (bits(y) != bits(x)) {
    key = std::string("pdtoa-roundtrip:err=") + err_class(y, x) + ",fmt=" + fc + ",val=" + val_class(x);
  } else if (strchr(buf, '.') == NULL && strchr(buf, 'e') == NULL) {
    key = std::string("pdtoa-not-float-form:fmt=") + fc;
  }
  if (!key.empty()) {
    if (comma_mode) {
      // does it fail in the C locale as well?
      char b2[64];
      locale_t old = uselocale(c_loc);
      pdtoa(x, b2);
      uselocale(old);
      if (strcmp(b2, buf) != 0) key = "pdtoa-locale-dependent:" + key;
    }
    fail(key, "in=" + hex64(bits(x)) + " out=" + buf + " got=" + hex64(bits(y)) + " want=" + hex64(bits(x)));
  }
}

static double stratified(Rng &r, uint64_t i) {
  uint64_t e = i % 2047;               // every binary exponent, including 0 (subnormal)
  uint64_t m = r.next() & 0xFFFFFFFFFFFFFull;
  int z = r.range(0, 60);
  if (z < 52 && r.chance(30)) m &= ~((1ull << z) - 1);   // structured mantissas (few significant bits)
  uint64_t s = r.next() & 1;
  return from_bits((s << 63) | (e << 52) | m);
}

static double short_decimal(Rng &r) {
  // doubles that have short decimal representations: what people write in headers
  char b[64];
  int nd = r.range(1, 17);
  int p = 0;
  for (int i = 0; i < nd; i++) b[p++] = (char)('0' + (i == 0 ? r.range(1, 9) : r.range(0, 9)));
  b[p] = 0;
  int e = r.chance(70) ? r.range(-nd - 3, 3) : r.range(-330, 300);
  char s[96];
  snprintf(s, sizeof(s), "%se%d", b, e);
  double d = strtod_l(s, NULL, c_loc);
  if (isinf(d)) d = 1.5;
  return r.chance(10) ? -d : d;
}

static void run_fmt(const char *stratum, uint64_t seed, uint64_t count) {
  Rng r(seed);
  std::string st = stratum;
  if (st == "expo") {
    for (uint64_t i = 0; i < count; i++) {
      double x = stratified(r, i);
      check_fmt(x, stratum);
      if ((i & 3) == 0) {            // adjacent doubles: the shortest-representation neighbours
        check_fmt(nextafter(x, INFINITY) == INFINITY ? x : nextafter(x, INFINITY), stratum);
        check_fmt(nextafter(x, -INFINITY) == -INFINITY ? x : nextafter(x, -INFINITY), stratum);
      }
    }
  } else if (st == "subnormal") {
    for (uint64_t i = 0; i < count; i++) {
      uint64_t m;
      switch (i % 4) {
        case 0: m = 1 + r.below(4096); break;
        case 1: m = 1ull << r.range(0, 51); break;
        case 2: m = (r.next() & 0xFFFFFFFFFFFFFull) | 1; break;
        default: m = 0xFFFFFFFFFFFFFull - r.below(4096); break;
      }
      check_fmt(from_bits(m), stratum);
      check_fmt(from_bits(m | (1ull << 63)), stratum);
    }
  } else if (st == "pow") {           // deterministic and complete: every power of two and of ten, +-2 ulp
    for (int e = -1074; e <= 1023; e++) {
      double x = ldexp(1.0, e);
      uint64_t u = bits(x);
      for (int d = -2; d <= 2; d++) {
        uint64_t v = u + (uint64_t)(int64_t)d;
        double y = from_bits(v);
        if (isfinite(y) && !(v >> 63)) check_fmt(y, stratum);
      }
    }
    for (int e = -323; e <= 308; e++) {
      char s[32];
      snprintf(s, sizeof(s), "1e%d", e);
      uint64_t u = bits(strtod_l(s, NULL, c_loc));
      for (int d = -2; d <= 2; d++) {
        uint64_t v = u + (uint64_t)(int64_t)d;
        double y = from_bits(v);
        if (isfinite(y) && !(v >> 63)) { check_fmt(y, stratum); check_fmt(-y, stratum); }
      }
    }
    check_fmt(0.0, stratum); check_fmt(-0.0, stratum); check_fmt(1.0, stratum); check_fmt(-1.0, stratum);
    check_fmt(1.7976931348623157e308, stratum); check_fmt(4.9406564584124654e-324, stratum);
    check_fmt(2.2250738585072014e-308, stratum); check_fmt(2.2250738585072009e-308, stratum);
  } else if (st == "int53") {
    const double two53 = 9007199254740992.0;
    for (uint64_t i = 0; i < count; i++) {
      double x;
      switch (i % 5) {
        case 0: x = two53 - (double)r.below(8192); break;
        case 1: x = two53 + 2.0 * (double)r.below(8192); break;
        case 2: x = (double)r.below(1000000); break;
        case 3: x = (double)(r.next() >> r.range(11, 63)); break;
        default: x = ldexp((double)r.below(1ull << 30), r.range(0, 60)); break;
      }
      check_fmt(x, stratum);
      if (r.chance(20)) check_fmt(-x, stratum);
      if (r.chance(20)) check_fmt(x + 0.5, stratum);
    }
  } else if (st == "short") {
    for (uint64_t i = 0; i < count; i++) check_fmt(short_decimal(r), stratum);
  } else if (st == "f32") {
    for (uint64_t i = 0; i < count; i++) {
      uint32_t u = (uint32_t)r.next();
      float f;
      memcpy(&f, &u, 4);
      if (isfinite(f)) check_fmt((double)f, stratum);
    }
  } else {
    fprintf(stderr, "unknown fmt stratum %s\n", stratum);
    exit(2);
  }
}

// ---------------------------------------------------------------------------------------------
// parser
// ---------------------------------------------------------------------------------------------

struct Lit {                      // [sign] int [. frac] [e esign edigits] [suffix]
  std::string sign, ip, fp, suffix;
  bool point = false;
  bool has_exp = false;
  char echar = 'e';
  std::string esign, edigits;
  std::string str() const {
    std::string s = sign + ip;
    if (point) s += "." + fp;
    if (has_exp) s += std::string(1, echar) + esign + edigits;
    return s + suffix;
  }
  bool wellformed() const {
    if (ip.empty() && fp.empty()) return false;
    if (!point && !fp.empty()) return false;
    if (has_exp && edigits.empty()) return false;
    return true;
  }
};

static bool parse_lit(const char *s, Lit &l) {
  l = Lit();
  if (*s == '+' || *s == '-') l.sign = std::string(1, *s++);
  while (*s >= '0' && *s <= '9') l.ip += *s++;
  if (*s == '.') {
    l.point = true;
    ++s;
    while (*s >= '0' && *s <= '9') l.fp += *s++;
  }
  if (*s == 'e' || *s == 'E') {
    l.has_exp = true;
    l.echar = *s++;
    if (*s == '+' || *s == '-') l.esign = std::string(1, *s++);
    while (*s >= '0' && *s <= '9') l.edigits += *s++;
  }
  l.suffix = s;
  return l.wellformed();
}

static bool exp_is_zero(const Lit &l) {
  for (char c : l.edigits) if (c != '0') return false;
  return true;
}

static size_t sig_digits(const Lit &l) {
  std::string d = l.ip + l.fp;
  size_t i = 0;
  while (i < d.size() && d[i] == '0') ++i;
  return d.size() - i;
}

// fine form, used for the feature signatures (what was exercised)
static std::string lit_form(const Lit &l) {
  std::string form;
  if (!l.point) form = "int";
  else if (l.fp.empty()) form = "int-point";
  else if (l.ip.empty()) form = "point-frac";
  else form = "frac";
  std::string ex = "noexp";
  if (l.has_exp) ex = exp_is_zero(l) ? "exp0" : (l.esign == "-" ? "exp-" : "exp+");
  size_t nd = sig_digits(l);
  std::string ds = nd <= 15 ? "digits<=15" : nd <= 19 ? "digits16-19" : "digits>=20";
  return "form=" + form + "," + ex + "," + ds;
}

// coarse form of a *minimal* witness, used in violation keys: which ingredients are needed to fail
static std::string key_form_small(const Lit &l) {
  std::string s = l.fp.empty() ? "int" : "frac";
  s += (l.has_exp && !exp_is_zero(l)) ? ",exp" : ",noexp";
  s += sig_digits(l) <= 15 ? ",digits<=15" : ",digits>=16";
  return s;
}

static std::string key_form_gross(const Lit &l) {
  if (!l.has_exp || exp_is_zero(l)) return "noexp";
  return l.esign == "-" ? "exp-" : "exp+";
}

struct Verdict {
  bool value_ok, end_ok;
  double got, want;
  const char *err;
};

static Verdict judge(const std::string &s) {
  Verdict v;
  char *e1 = NULL, *e2 = NULL;
  v.got = pstrtod(s.c_str(), &e1);
  v.want = strtod_l(s.c_str(), &e2, c_loc);
  v.value_ok = bits(v.got) == bits(v.want) || (isnan(v.got) && isnan(v.want));
  v.end_ok = (e1 == e2);
  v.err = v.value_ok ? "" : err_class(v.got, v.want);
  return v;
}

static const char *got_class(double g) {
  return g == 0.0 ? "zero" : isinf(g) ? "inf" : isnan(g) ? "nan" : "finite";
}

// greedy reduction; a candidate is kept when it still fails in the same way: same error class and, for
// gross errors, the same (expected class, obtained class) pair
static std::string minimise(const Lit &start, const Verdict &v0) {
  Lit cur = start;
  int budget = 600;
  const char *err = v0.err;
  bool gross = strcmp(err, "gross") == 0;
  auto still = [&](const Lit &c) {
    if (!c.wellformed() || budget-- <= 0) return false;
    Verdict v = judge(c.str());
    if (v.value_ok || strcmp(v.err, err) != 0) return false;
    if (gross && (strcmp(val_class(v.want), val_class(v0.want)) != 0 || strcmp(got_class(v.got), got_class(v0.got)) != 0))
      return false;
    return true;
  };
  bool changed = true;
  while (changed && budget > 0) {
    changed = false;
    Lit c;
    c = cur; if (!c.sign.empty()) { c.sign = ""; if (still(c)) { cur = c; changed = true; } }
    c = cur; if (!c.suffix.empty()) { c.suffix = ""; if (still(c)) { cur = c; changed = true; } }
    c = cur; if (c.has_exp) { c.has_exp = false; c.esign = c.edigits = ""; if (still(c)) { cur = c; changed = true; } }
    if (cur.has_exp) {
      long e = atol(cur.edigits.c_str());
      long tries[3] = {e / 2, e - 1, 0};
      for (long t : tries) {
        if (t < 0 || t >= e) continue;
        c = cur; c.edigits = std::to_string(t); c.echar = 'e';
        if (c.esign == "+") c.esign = "";
        if (still(c)) { cur = c; changed = true; break; }
      }
      c = cur;
      if (c.esign == "+") { c.esign = ""; if (still(c)) { cur = c; changed = true; } }
    }
    c = cur; if (!c.fp.empty()) { c.fp.clear(); c.point = !c.ip.empty() ? false : true; if (c.ip.empty()) c.ip = "0", c.point = false; if (still(c)) { cur = c; changed = true; } }
    c = cur; if (c.fp.size() > 1) { c.fp.resize(c.fp.size() / 2); if (still(c)) { cur = c; changed = true; } }
    c = cur; if (!c.fp.empty()) { c.fp.resize(c.fp.size() - 1); if (c.fp.empty() && c.ip.empty()) c.ip = "0"; if (still(c)) { cur = c; changed = true; } }
    c = cur; if (c.ip.size() > 1) { c.ip = c.ip.substr(c.ip.size() / 2); if (still(c)) { cur = c; changed = true; } }
    c = cur; if (c.ip.size() > 1) { c.ip = c.ip.substr(1); if (still(c)) { cur = c; changed = true; } }
    c = cur; if (c.ip.size() > 1) { c.ip.resize(c.ip.size() - 1); if (still(c)) { cur = c; changed = true; } }
    c = cur; if (!c.ip.empty() && c.ip != "0" && !c.fp.empty()) { c.ip = "0"; if (still(c)) { cur = c; changed = true; } }
    c = cur; if (c.point && c.fp.empty() && !c.ip.empty()) { c.point = false; if (still(c)) { cur = c; changed = true; } }
  }
  return cur.str();
}

static void check_parse(const std::string &s, const char *stratum) {
  ++n_checked;
  if (trace_fd >= 0) trace("eval", s.c_str());
  Lit l;
  bool wf = parse_lit(s.c_str(), l);
  Verdict v = judge(s);
  if (wf) {
    ++feats[std::string("parse:") + stratum + ":" + lit_form(l) + ",want=" + val_class(v.want) +
            (l.suffix.empty() ? "" : ",suffix")];
  }
  if (samples.size() < 4) sample("pstrtod(" + s.substr(0, 60) + ") = 0x" + hex64(bits(v.got)) + " strtod = 0x" + hex64(bits(v.want)));
  if (!v.value_ok) {
    std::string key, minimal = s;
    if (comma_mode) {
      double g2 = pstrtod_in_c_locale(s.c_str(), NULL);
      if (bits(g2) == bits(v.want)) {
        fail(std::string("pstrtod-locale-dependent:err=") + v.err, "in=" + s + " got=" + hex64(bits(v.got)) + " want=" + hex64(bits(v.want)));
        return;
      }
    }
    if (wf) {
      // minimisation is the expensive part (hundreds of conversions of possibly very long strings): do it for
      // the first 64 failures of every fine input class only; the rest are counted, not keyed
      static std::map<std::string, unsigned> per_class;
      std::string fine = lit_form(l) + "," + v.err + "," + val_class(v.want) + "," + got_class(v.got);
      if (++per_class[fine] > 64) {
        ++n_unminimised;
        return;
      }
      minimal = minimise(l, v);
      Lit m;
      parse_lit(minimal.c_str(), m);
      Verdict mv = judge(minimal);
      if (strcmp(v.err, "gross") == 0)
        key = std::string("pstrtod-misrounded:err=gross,") + key_form_gross(m) + ",want=" + val_class(mv.want) +
              ",got=" + got_class(mv.got);
      else
        key = std::string("pstrtod-misrounded:err=ulps,") + key_form_small(m);
    } else {
      key = std::string("pstrtod-misrounded:err=") + v.err + ",form=malformed";
    }
    fail(key, "in=" + s + " got=" + hex64(bits(v.got)) + " want=" + hex64(bits(v.want)) + " min=" + minimal);
  } else if (wf && !v.end_ok && (l.suffix.empty() || strchr("fFlL", l.suffix[0]) != NULL)) {
    std::string suf = l.suffix.empty() ? "none" : (l.suffix[0] == 'f' || l.suffix[0] == 'F') ? "f" : "l";
    if (comma_mode) {
      char *e1 = NULL, *e2 = NULL;
      pstrtod_in_c_locale(s.c_str(), &e1);
      strtod_l(s.c_str(), &e2, c_loc);
      if (e1 == e2) {
        fail("pstrtod-locale-dependent:endptr", "in=" + s);
        return;
      }
    }
    fail(std::string("pstrtod-endptr:") + (l.fp.empty() ? "int" : "frac") + (l.point && l.fp.empty() ? "-point" : "") +
         ((l.has_exp) ? ",exp" : ",noexp") + ",suffix=" + suf, "in=" + s);
  }
}

static std::string digits(Rng &r, int n, bool nonzero_first) {
  std::string d;
  for (int i = 0; i < n; i++) d += (char)('0' + ((i == 0 && nonzero_first) ? r.range(1, 9) : r.range(0, 9)));
  return d;
}

static std::string split_digits(Rng &r, const std::string &d) {
  // place a decimal point somewhere (or nowhere) in a digit string
  int mode = r.range(0, 9);
  if (mode == 0) return d;                                  // 123
  if (mode == 1) return d + ".";                            // 123.
  if (mode == 2) return "." + d;                            // .123
  if (mode == 3) return "0." + d;                           // 0.123
  size_t k = 1 + r.below(d.size());
  if (k >= d.size()) return d + ".0";
  return d.substr(0, k) + "." + d.substr(k);
}

static std::string exponent(Rng &r, int lo, int hi) {
  int e = r.range(lo, hi);
  std::string s(1, r.chance(50) ? 'e' : 'E');
  if (e < 0) s += "-"; else if (r.chance(40)) s += "+";
  char b[16];
  snprintf(b, sizeof(b), r.chance(10) ? "%03d" : "%d", e < 0 ? -e : e);
  return s + b;
}

static std::string suffix(Rng &r) {
  static const char *suf[] = {"f", "F", "l", "L"};
  return r.chance(12) ? suf[r.below(4)] : "";
}

static std::string c_printf(const char *fmt, int prec, long double v) {
  char b[1400];
  snprintf(b, sizeof(b), fmt, prec, v);
  for (char *p = b; *p; ++p) if (*p == ',') *p = '.';      // printf follows the process locale
  return b;
}

static void run_parse(const char *stratum, uint64_t seed, uint64_t count) {
  Rng r(seed);
  std::string st = stratum;
  for (uint64_t i = 0; i < count; i++) {
    std::string s;
    if (st == "short") {
      s = split_digits(r, digits(r, r.range(1, 15), r.chance(85)));
      if (r.chance(5)) s = (r.chance(50) ? "-" : "+") + s;
      s += suffix(r);
    } else if (st == "exp") {
      s = split_digits(r, digits(r, r.range(1, 17), r.chance(85)));
      s += r.chance(75) ? exponent(r, -30, 30) : exponent(r, -345, 320);
      s += suffix(r);
    } else if (st == "long") {
      s = split_digits(r, digits(r, r.range(16, 19), true));
      if (r.chance(40)) s += exponent(r, -40, 40);
    } else if (st == "vlong") {
      int n = r.chance(90) ? r.range(20, 45) : r.range(100, 800);
      s = split_digits(r, digits(r, n, true));
      if (r.chance(40)) s += exponent(r, -340, 300);
    } else if (st == "zeros") {
      switch (r.below(8)) {
        case 0: s = std::string((size_t)r.range(1, 5), '0') + (r.chance(50) ? "." + std::string((size_t)r.range(0, 30), '0') : ""); break;
        case 1: s = std::string((size_t)r.range(1, 4), '0') + split_digits(r, digits(r, r.range(1, 12), true)); break;
        case 2: s = digits(r, r.range(1, 6), true) + "." + digits(r, r.range(0, 6), false) + std::string((size_t)r.range(1, 40), '0'); break;
        case 3: s = digits(r, r.range(1, 4), true) + std::string((size_t)r.range(1, 40), '0') + (r.chance(50) ? ".0" : ""); break;
        case 4: s = "0." + std::string((size_t)r.range(1, 60), '0') + digits(r, r.range(1, 17), true); break;
        case 5: s = "0e" + std::to_string(r.range(-400, 400)); break;
        case 6: s = "." + std::string((size_t)r.range(1, 30), '0') + digits(r, r.range(1, 5), true) + exponent(r, -20, 40); break;
        default: s = digits(r, 1, false) + ".0"; break;
      }
    } else if (st == "halfway") {
      // exact decimal expansion of the midpoint of two adjacent doubles (a tie for round-to-nearest),
      // and its immediate decimal neighbours; long double has the 54 bits needed
      double x = fabs(stratified(r, 1 + r.below(2045)));
      if (x == 0.0 || !isfinite(x)) x = 1.0;
      long double mid = ((long double)x + (long double)nextafter(x, INFINITY)) / 2.0L;
      if (isinf((double)nextafter(x, INFINITY))) mid = (long double)x;
      s = c_printf("%.*Le", 800, mid);
      // strip trailing zeros of the mantissa
      size_t e = s.find('e');
      std::string mant = s.substr(0, e), ex = s.substr(e);
      while (mant.size() > 3 && mant[mant.size() - 1] == '0') mant.resize(mant.size() - 1);
      switch (r.below(4)) {
        case 0: break;                                              // the tie itself
        case 1: mant += "1"; break;                                  // just above
        case 2: mant += std::string((size_t)r.range(1, 30), '0') + "1"; break;
        default:                                                     // just below: ...d -> ...(d-1)999
          if (mant[mant.size() - 1] > '0' && mant[mant.size() - 1] <= '9') {
            mant[mant.size() - 1] -= 1;
            mant += std::string((size_t)r.range(1, 20), '9');
          }
          break;
      }
      s = mant + ex;
    } else if (st == "pdtoa") {
      char b[64];
      double x = r.chance(50) ? stratified(r, i) : short_decimal(r);
      if (trace_fd >= 0) trace("fmtbits", hex64(bits(x)).c_str());
      pdtoa(x, b);
      s = b;
    } else if (st == "g17") {
      double x = stratified(r, i);
      static const int precs[] = {17, 16, 15, 9, 6, 20};
      int prec = precs[r.below(6)];
      s = c_printf(r.chance(50) ? "%.*Lg" : "%.*Le", prec, (long double)x);
    } else if (st == "range") {
      static const char *fixed[] = {
        "1.7976931348623157e308", "1.7976931348623158e308", "1.7976931348623159e308", "1.797693134862315807e308",
        "17976931348623157e292", "0.00017976931348623157e312", "1e308", "1e309", "2e308", "4.9e-324", "5e-324",
        "2.4703282292062327e-324", "2.4703282292062328e-324", "2.47032822920623272e-324", "3e-324", "1e-323",
        "2.2250738585072011e-308", "2.2250738585072012e-308", "2.2250738585072014e-308", "2.2250738585072009e-308",
        "1e-400", "1e400", "0.1e-322", "123456789e-330", "1e23", "8.41e21", "9007199254740993", "9007199254740992.5",
        "9007199254740993.0000000001", "0.3", "0.1", "0.7", "3.14159", "123456789.125", "1e-45", "6.02214076e23",
      };
      const size_t nf = sizeof(fixed) / sizeof(fixed[0]);
      if (i < nf) s = fixed[i];
      else {
        s = split_digits(r, digits(r, r.range(1, 20), true));
        s += r.chance(50) ? exponent(r, -345, -290) : exponent(r, 285, 312);
      }
    } else {
      fprintf(stderr, "unknown parse stratum %s\n", stratum);
      exit(2);
    }
    check_parse(s, stratum);
  }
}

// ---------------------------------------------------------------------------------------------

static void run_f32(uint64_t lo, uint64_t hi, uint64_t parse_every) {
  char b[64];
  for (uint64_t u = lo; u < hi; u++) {
    uint32_t w = (uint32_t)u;
    float f;
    memcpy(&f, &w, 4);
    if (!isfinite(f)) continue;
    check_fmt((double)f, "f32all");
    if (parse_every && (u % parse_every) == 0) {
      if (trace_fd >= 0) trace("fmtbits", hex64(bits((double)f)).c_str());
      pdtoa((double)f, b);
      check_parse(b, "f32all");
    }
  }
}

// ---------------------------------------------------------------------------------------------
// end-to-end oracle
// ---------------------------------------------------------------------------------------------

// value a parameter of type `ptype` gets when initialised from the decimal text `digits` carrying `suffix`
static bool param_value(const char *digits, char suffix, char ptype, bool neg, double &out, bool &ambiguous) {
  char *end = NULL;
  double v;
  ambiguous = false;
  if (suffix == 'f') {
    float f = strtof_l(digits, &end, c_loc);
    v = (double)f;
  } else if (suffix == 'l') {
    long double l = strtold_l(digits, &end, c_loc);
    v = (double)l;
    // the statement speaks of doubles; when rounding the long double differs from rounding the decimal
    // directly (double rounding) the authority is ambiguous
    char *e2 = NULL;
    if (bits(strtod_l(digits, &e2, c_loc)) != bits(v)) ambiguous = true;
  } else {
    v = strtod_l(digits, &end, c_loc);
  }
  if (end == digits || *end != 0) return false;
  if (ptype == 'f') v = (double)(float)v;
  out = neg ? -v : v;
  return true;
}

static void run_lit() {
  char line[8192];
  while (fgets(line, sizeof(line), stdin) != NULL) {
    size_t n = strlen(line);
    while (n && (line[n - 1] == '\n' || line[n - 1] == '\r')) line[--n] = 0;
    std::vector<std::string> f;
    char *save = NULL;
    for (char *t = strtok_r(line, "\t", &save); t != NULL; t = strtok_r(NULL, "\t", &save)) f.push_back(t);
    if (f.size() != 6) { printf("LIT %s unparsable want=0 got=0 err=none cause=none\n", f.empty() ? "?" : f[0].c_str()); continue; }
    const std::string &id = f[0], &dig = f[1], &emitted = f[5];
    char suffix = f[2][0] == '-' ? 0 : f[2][0], ptype = f[3][0];
    bool neg = f[4][0] == '-';
    ++n_checked;
    double want = 0, got = 0;
    bool amb = false, amb2 = false;
    if (!param_value(dig.c_str(), suffix, ptype, neg, want, amb)) {
      printf("LIT %s unparsable want=0 got=0 err=none cause=none\n", id.c_str());
      continue;
    }
    const char *e = emitted.c_str();
    bool eneg = false;
    if (*e == '-') { eneg = true; ++e; }
    if (!((*e >= '0' && *e <= '9') || *e == '.' || strncmp(e, "inf", 3) == 0 || strncmp(e, "nan", 3) == 0) ||
        !param_value(e, 0, ptype, eneg, got, amb2)) {
      printf("LIT %s unparsable want=%s got=0 err=gross cause=other\n", id.c_str(), hex64(bits(want)).c_str());
      continue;
    }
    bool ok = bits(got) == bits(want);
    const char *cause = "none";
    if (!ok) {
      // what would a faithful print of pstrtod(source) have produced?
      char b[64];
      double pv = pstrtod(dig.c_str(), NULL);
      pdtoa(pv, b);
      double carried = 0;
      bool a3;
      cause = "other";
      if (param_value(b, 0, ptype, neg, carried, a3) && bits(carried) == bits(got) &&
          bits(pv) != bits(strtod_l(dig.c_str(), NULL, c_loc)))
        cause = "pstrtod";
    }
    printf("LIT %s %s want=%s got=%s err=%s cause=%s\n", id.c_str(), ok ? "ok" : amb ? "ambiguous" : "bad",
           hex64(bits(want)).c_str(), hex64(bits(got)).c_str(), ok ? "none" : err_class(got, want), cause);
  }
}

static void report() {
  printf("N %llu\n", (unsigned long long)n_checked);
  if (n_unminimised) printf("UNMINIMISED %llu\n", (unsigned long long)n_unminimised);
  for (auto &l : samples) printf("SAMPLE %s\n", l.c_str());
  for (auto &kv : feats) printf("FEAT %s %llu\n", kv.first.c_str(), (unsigned long long)kv.second);
  for (auto &kv : failsamples)
    for (auto &l : kv.second) printf("FAIL %s %s\n", kv.first.c_str(), l.c_str());
  for (auto &kv : failcount) printf("FAILCOUNT %s %llu\n", kv.first.c_str(), (unsigned long long)kv.second);
}

int main(int argc, char **argv) {
  int a = 1;
  if (getenv("FP_TRACE") != NULL) trace_fd = open(getenv("FP_TRACE"), O_WRONLY | O_CREAT | O_TRUNC, 0644);
  c_loc = newlocale(LC_ALL_MASK, "C", (locale_t)0);
  if (c_loc == (locale_t)0) { fprintf(stderr, "newlocale failed\n"); return 2; }
  if (a < argc && strcmp(argv[a], "--locale") == 0) {
    ++a;
    comma_mode = true;
    if (setlocale(LC_ALL, "") == NULL) { fprintf(stderr, "setlocale(LC_ALL, \"\") failed\n"); return 3; }
  }
  {
    char t[32];
    snprintf(t, sizeof(t), "%.1f", 2.5);
    printf("LOCALE %c\n", t[1]);
    if (comma_mode && t[1] != ',') { fprintf(stderr, "decimal point is '%c', not ','\n", t[1]); return 3; }
    if (comma_mode && strtod("2.5", NULL) != 2.0) { fprintf(stderr, "libc strtod unaffected by the locale?\n"); return 3; }
  }
  if (argc - a < 1) { fprintf(stderr, "usage: see source\n"); return 2; }
  std::string mode = argv[a++];
  if (mode == "fmt" && argc - a == 3) {
    run_fmt(argv[a], strtoull(argv[a + 1], NULL, 10), strtoull(argv[a + 2], NULL, 10));
  } else if (mode == "parse" && argc - a == 3) {
    run_parse(argv[a], strtoull(argv[a + 1], NULL, 10), strtoull(argv[a + 2], NULL, 10));
  } else if (mode == "f32" && argc - a >= 2) {
    run_f32(strtoull(argv[a], NULL, 10), strtoull(argv[a + 1], NULL, 10), argc - a >= 3 ? strtoull(argv[a + 2], NULL, 10) : 0);
  } else if (mode == "eval") {
    for (; a < argc; a++) {
      char *e1 = NULL, *e2 = NULL;
      double g = pstrtod(argv[a], &e1);
      double w = strtod_l(argv[a], &e2, c_loc);
      char b[64];
      pdtoa(g, b);
      printf("EVAL in=%s pstrtod=%s strtod=%s pend=%d send=%d pdtoa=%s err=%s\n", argv[a], hex64(bits(g)).c_str(),
             hex64(bits(w)).c_str(), (int)(e1 - argv[a]), (int)(e2 - argv[a]), b,
             bits(g) == bits(w) ? "none" : err_class(g, w));
      check_parse(argv[a], "eval");
    }
  } else if (mode == "lit") {
    run_lit();
  } else if (mode == "fmtbits") {
    for (; a < argc; a++) check_fmt(from_bits(strtoull(argv[a], NULL, 16)), "bits");
  } else {
    fprintf(stderr, "usage: see source\n");
    return 2;
  }
  report();
  return 0;
}
