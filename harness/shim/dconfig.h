// Minimal stand-in for Panda3D's dconfig.h (generated code includes it; nothing from it is used
// outside the Panda3D runtime).
#ifndef VF_SHIM_DCONFIG_H
#define VF_SHIM_DCONFIG_H
#endif
