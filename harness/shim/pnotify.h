// Minimal stand-in for Panda3D's pnotify.h, as far as interrogate's generated code and py_panda need it.
#ifndef VF_SHIM_PNOTIFY_H
#define VF_SHIM_PNOTIFY_H
#include "dtoolbase.h"
#include <string>
#include <iostream>
#include <cassert>
class Notify {
public:
  static Notify *ptr() { static Notify n; return &n; }
  bool has_assert_failed() const { return _failed; }
  const std::string &get_assert_error_message() const { return _msg; }
  void clear_assert_failed() { _failed = false; _msg.clear(); }
  void assert_failure(const char *expr, int line, const char *file) {
    _failed = true; _msg = std::string("Assertion failed: ") + expr + " at line " + std::to_string(line) + " of " + file;
  }
  static std::ostream &out() { return std::cerr; }
  bool _failed = false;
  std::string _msg;
};
#define nassertr(cond, ret) do { if (!(cond)) { Notify::ptr()->assert_failure(#cond, __LINE__, __FILE__); return ret; } } while (0)
#define nassertv(cond) do { if (!(cond)) { Notify::ptr()->assert_failure(#cond, __LINE__, __FILE__); return; } } while (0)
#define nassertd(cond) if (!(cond))
#define nassertr_always(cond, ret) nassertr(cond, ret)
#define nassertv_always(cond) nassertv(cond)
#define nassert_raise(msg) Notify::ptr()->assert_failure(msg, __LINE__, __FILE__)
#define nassert_static(cond) static_assert(cond, #cond)
#define nout (std::cerr)
#endif
