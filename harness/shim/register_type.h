// Minimal stand-in for Panda3D's TypeHandle/TypeRegistry, as far as py_panda and generated code need it.
#ifndef VF_SHIM_REGISTER_TYPE_H
#define VF_SHIM_REGISTER_TYPE_H
#include "dtoolbase.h"
#include <string>
#include <map>
#include <vector>
#ifdef HAVE_PYTHON
#include <Python.h>
#endif
class TypeHandle;
typedef struct _object PyObject;
typedef struct _typeobject PyTypeObject;
class TypeHandle {
public:
  TypeHandle() : _index(0) {}
  static TypeHandle none() { return TypeHandle(); }
  static TypeHandle from_index(int i) { TypeHandle h; h._index = i; return h; }
  int get_index() const { return _index; }
  bool operator==(const TypeHandle &o) const { return _index == o._index; }
  bool operator!=(const TypeHandle &o) const { return _index != o._index; }
  bool operator<(const TypeHandle &o) const { return _index < o._index; }
  inline PyTypeObject *get_python_type() const;
  inline PyObject *wrap_python(void *ptr, PyTypeObject *cast_from = nullptr) const;
  std::string get_name() const;
  int _index;
};
class TypeRegistry {
public:
  typedef PyObject *PythonWrapFunc(void *ptr, PyTypeObject *cast_from);
  static TypeRegistry *ptr() { static TypeRegistry r; return &r; }
  TypeHandle register_dynamic_type(const std::string &name) {
    auto it = _by_name.find(name);
    if (it != _by_name.end()) return TypeHandle::from_index(it->second);
    _names.push_back(name); _py.push_back(nullptr); _wrap.push_back(nullptr);
    _by_name[name] = (int)_names.size();
    return TypeHandle::from_index((int)_names.size());
  }
  void record_derivation(TypeHandle, TypeHandle) {}
  void record_python_type(TypeHandle t, PyTypeObject *p, PythonWrapFunc *f = nullptr) {
    if (t._index > 0 && t._index <= (int)_py.size()) { _py[t._index - 1] = p; _wrap[t._index - 1] = f; }
  }
  std::vector<std::string> _names;
  std::vector<PyTypeObject *> _py;
  std::vector<PythonWrapFunc *> _wrap;
  std::map<std::string, int> _by_name;
};
inline PyTypeObject *TypeHandle::get_python_type() const {
  TypeRegistry *r = TypeRegistry::ptr();
  return (_index > 0 && _index <= (int)r->_py.size()) ? r->_py[_index - 1] : nullptr;
}
inline PyObject *TypeHandle::wrap_python(void *ptr, PyTypeObject *cast_from) const {
  TypeRegistry *r = TypeRegistry::ptr();
  if (_index > 0 && _index <= (int)r->_wrap.size() && r->_wrap[_index - 1]) return r->_wrap[_index - 1](ptr, cast_from);
  return nullptr;
}
inline std::string TypeHandle::get_name() const {
  TypeRegistry *r = TypeRegistry::ptr();
  return (_index > 0 && _index <= (int)r->_names.size()) ? r->_names[_index - 1] : std::string("none");
}
template<class T> inline TypeHandle _vf_get_type_handle(const T *) { return TypeHandle::none(); }
#define get_type_handle(type) _vf_get_type_handle((const type *)0)
#endif
