// idbdrive: execute a script of query-library commands in ONE process (= one history of the
// process-wide InterrogateDatabase singleton) and log every call and result, one line each.
//
//   idbdrive [--trace] [--nocatch] [--alarm SECONDS] SCRIPT        (SCRIPT "-" = stdin)
//
// Script: one command per line, blank-separated tokens.  Strings are hex encoded with an 'x' prefix
// ("x616263" = "abc", "x" = "", "-" = NULL pointer).
//
//   load   FILE                         interrogate_request_database(FILE)
//   module LIB HASH MOD DBFILE IDENT FIRST NEXT NFPTRS NUNIQ [NAME OFFSET]... [!N]...
//                                       interrogate_request_module() with a synthetic InterrogateModuleDef;
//                                       fptrs[i] = (void*)(0x100000*(k+1) + 16*i) for the k-th module (k from 0),
//                                       each trailing "!<n>" token makes fptrs[n] NULL instead
//                                       -> "M k first_index next_index" (the range the library assigned)
//   ranges                              force the lazy load, then -> "G k first_index next_index" per requested module
//   force                               force the lazy load (interrogate_number_of_types) -> "E <error flag>"
//   err                                 -> "E <error flag>"
//   next                                -> "N <next index>"   (NOTE: consumes one index, as the library's accessor does)
//   call  FN A [B]                      call an int-argument function        -> "R FN A B = VALUE"
//   calls FN STR                        call a string-argument function      -> "R FN STR = VALUE"
//   sweep LO HI PMAX [FN [IDX [POS]]]   every function x index in [LO,HI] u {INT_MIN,INT_MAX,+-2^30}
//                                       x position in [-1,PMAX] u {INT_MIN,INT_MAX}; optional filters
//                                       -> "S FN IDX POS VALUE" for every NON-NEUTRAL result, "T FN calls nonneutral"
//   write FILE IDENT LIB HASH MOD       InterrogateDatabase::write
//   dump  FILE                          idbdump's JSON of the current database into FILE
//   probe LABEL FILE IDENT HI PMAX      start from a FRESH database object, load FILE (module def with file_identifier
//                                       IDENT; FILE "-" loads nothing), dump + sweep [-2,HI], and report
//                                       -> "B LABEL" (flushed, before) then
//                                          "P LABEL <error flag> <fnv64 of dump+sweep> <ntypes> <nfunctions>"
//                                       or "P LABEL THREW <typeid>" when an exception escaped the C interface;
//                                       a crash or the --alarm watchdog (default 20 s) ends the process after the B line
//   prefixes FILE DIR HI PMAX L...      as probe, for the byte-prefixes of FILE with the given lengths
//
// VALUE: decimal int | "s:<hex>" string | "n" NULL | "p:<hex>" pointer | "v" void.
// With --trace every call is announced by a flushed "B ..." line first, so a crash is attributable.
// Build through vf/gen/ifacegen.idbdrive_path(): it generates idbdrive_table.inc (one line per function declared in
// interrogate_interface.h of the tree under test) and compiles with -fno-access-control (probe resets the singleton).
#include "interrogate_interface.h"
#include "interrogate_request.h"
#include "interrogateDatabase.h"

#include <climits>
#include <csignal>
#include <cstdint>
#include <cstdio>
#include <cstdlib>
#include <cstring>
#include <fstream>
#include <iostream>
#include <sstream>
#include <string>
#include <vector>
#include <typeinfo>
#include <unistd.h>

// reuse idbdump's dumper (its main() dumps the current database to std::cout)
#define main idbdump_main
#include "idbdump.cxx"
#undef main

struct Fn { const char *name; char ret; const char *args; void (*ptr)(); };
static const Fn TABLE[] = {
#include "idbdrive_table.inc"
};
static const int NFN = sizeof(TABLE) / sizeof(TABLE[0]);

static bool g_trace = false;
static int g_alarm = 20;           // --alarm N: seconds a single probe may take
static bool g_nocatch = false;   // --nocatch: let exceptions escape (stack trace of the throw in the abort report)

struct Val {
  char kind = 'v';   // i b s p v
  long long i = 0;
  bool null = false;
  std::string s;
  bool neutral() const {
    switch (kind) {
      case 'i': case 'b': return i == 0;
      case 's': return null || s.empty();
      case 'p': return i == 0;
      default: return true;
    }
  }
};

static std::string hex(const std::string &s) {
  static const char *d = "0123456789abcdef";
  std::string o;
  for (unsigned char c : s) { o += d[c >> 4]; o += d[c & 15]; }
  return o;
}
static bool unhex(const std::string &t, std::string &out, bool &null) {
  null = false; out.clear();
  if (t == "-") { null = true; return true; }
  if (t.empty() || t[0] != 'x' || (t.size() % 2) != 1) return false;
  for (size_t i = 1; i + 1 < t.size(); i += 2) {
    auto v = [](char c) { return c >= '0' && c <= '9' ? c - '0' : c >= 'a' && c <= 'f' ? c - 'a' + 10 : c >= 'A' && c <= 'F' ? c - 'A' + 10 : -1; };
    int a = v(t[i]), b = v(t[i + 1]);
    if (a < 0 || b < 0) return false;
    out += (char)(a * 16 + b);
  }
  return true;
}
static void put(std::ostream &o, const Val &v) {
  switch (v.kind) {
    case 'i': case 'b': o << v.i; break;
    case 's': if (v.null) o << "n"; else o << "s:" << hex(v.s); break;
    case 'p': if (v.i == 0) o << "n"; else { char b[32]; snprintf(b, sizeof b, "p:%llx", v.i); o << b; } break;
    default: o << "v";
  }
}

static const Fn *find(const std::string &n) {
  for (int i = 0; i < NFN; ++i) if (n == TABLE[i].name) return &TABLE[i];
  return nullptr;
}

static Val invoke(const Fn &f, int a, int b, const char *s) {
  Val v; v.kind = f.ret;
  std::string args = f.args;
#define CALL(T, ...) ((T)f.ptr)(__VA_ARGS__)
  if (args == "") {
    switch (f.ret) {
      case 'i': v.i = CALL(int (*)()); break;
      case 'b': v.i = CALL(bool (*)()) ? 1 : 0; break;
      case 's': { const char *r = CALL(const char *(*)()); v.null = !r; if (r) v.s = r; } break;
      case 'p': v.i = (long long)(uintptr_t)CALL(void *(*)()); break;
      default: CALL(void (*)());
    }
  } else if (args == "i") {
    switch (f.ret) {
      case 'i': v.i = CALL(int (*)(int), a); break;
      case 'b': v.i = CALL(bool (*)(int), a) ? 1 : 0; break;
      case 's': { const char *r = CALL(const char *(*)(int), a); v.null = !r; if (r) v.s = r; } break;
      case 'p': v.i = (long long)(uintptr_t)CALL(void *(*)(int), a); break;
      default: CALL(void (*)(int), a);
    }
  } else if (args == "ii") {
    switch (f.ret) {
      case 'i': v.i = CALL(int (*)(int, int), a, b); break;
      case 'b': v.i = CALL(bool (*)(int, int), a, b) ? 1 : 0; break;
      case 's': { const char *r = CALL(const char *(*)(int, int), a, b); v.null = !r; if (r) v.s = r; } break;
      case 'p': v.i = (long long)(uintptr_t)CALL(void *(*)(int, int), a, b); break;
      default: CALL(void (*)(int, int), a, b);
    }
  } else if (args == "s") {
    switch (f.ret) {
      case 'i': v.i = CALL(int (*)(const char *), s); break;
      case 'b': v.i = CALL(bool (*)(const char *), s) ? 1 : 0; break;
      case 's': { const char *r = CALL(const char *(*)(const char *), s); v.null = !r; if (r) v.s = r; } break;
      case 'p': v.i = (long long)(uintptr_t)CALL(void *(*)(const char *), s); break;
      default: CALL(void (*)(const char *), s);
    }
  } else {
    std::cerr << "idbdrive: unsupported signature " << f.name << "\n";
    exit(3);
  }
#undef CALL
  return v;
}

static std::vector<int> index_set(int lo, int hi) {
  std::vector<int> v;
  v.push_back(INT_MIN); v.push_back(-(1 << 30));
  for (long long i = lo; i <= hi; ++i) v.push_back((int)i);
  v.push_back(1 << 30); v.push_back(INT_MAX);
  return v;
}
static std::vector<int> pos_set(int pmax) {
  std::vector<int> v;
  v.push_back(INT_MIN);
  for (int i = -1; i <= pmax; ++i) v.push_back(i);
  v.push_back(INT_MAX);
  return v;
}

// the sweep proper; string-argument functions and void ones are not swept here
static void sweep(std::ostream &o, int lo, int hi, int pmax, const std::string &only_fn, bool has_idx, int only_idx,
                  bool has_pos, int only_pos) {
  std::vector<int> idx = index_set(lo, hi), pos = pos_set(pmax);
  if (has_idx) { idx.clear(); idx.push_back(only_idx); }
  if (has_pos) { pos.clear(); pos.push_back(only_pos); }
  for (int k = 0; k < NFN; ++k) {
    const Fn &f = TABLE[k];
    if (!only_fn.empty() && only_fn != f.name) continue;
    std::string args = f.args;
    long long calls = 0, non = 0;
    if (args == "s" || f.ret == 'v') continue;
    if (args == "") {
      if (g_trace) { o << "B " << f.name << " - -" << std::endl; }
      Val v = invoke(f, 0, 0, nullptr); ++calls;
      if (!v.neutral()) { ++non; o << "S " << f.name << " - - "; put(o, v); o << "\n"; }
    } else if (args == "i") {
      for (int a : idx) {
        if (g_trace) { o << "B " << f.name << " " << a << " -" << std::endl; }
        Val v = invoke(f, a, 0, nullptr); ++calls;
        if (!v.neutral()) { ++non; o << "S " << f.name << " " << a << " - "; put(o, v); o << "\n"; }
      }
    } else if (args == "ii") {
      for (int a : idx) for (int b : pos) {
        if (g_trace) { o << "B " << f.name << " " << a << " " << b << std::endl; }
        Val v = invoke(f, a, b, nullptr); ++calls;
        if (!v.neutral()) { ++non; o << "S " << f.name << " " << a << " " << b << " "; put(o, v); o << "\n"; }
      }
    }
    o << "T " << f.name << " " << calls << " " << non << "\n";
  }
}

struct CoutRedirect {
  std::streambuf *old;
  explicit CoutRedirect(std::streambuf *to) : old(std::cout.rdbuf(to)) {}
  ~CoutRedirect() { std::cout.rdbuf(old); }
};

static std::string dump_string() {
  std::ostringstream ss;
  {
    CoutRedirect guard(ss.rdbuf());
    char prog[] = "idbdump";
    char *av[] = { prog, nullptr };
    idbdump_main(1, av);
  }
  return ss.str();
}

static unsigned long long fnv(const std::string &s) {
  unsigned long long h = 1469598103934665603ULL;
  for (unsigned char c : s) { h ^= c; h *= 1099511628211ULL; }
  return h;
}

static int g_modules = 0;

static const char *keep(const std::string &s, bool null) {
  if (null) return nullptr;
  char *p = (char *)malloc(s.size() + 1);
  memcpy(p, s.c_str(), s.size() + 1);
  return p;
}

static std::vector<InterrogateModuleDef *> g_defs;
static InterrogateModuleDef *new_def() {
  InterrogateModuleDef *def = new InterrogateModuleDef;
  memset(def, 0, sizeof *def);
  g_defs.push_back(def);
  return def;
}

// One probe = a fresh database object (the old one is leaked), one load, one digest.  Runs in-process so that
// thousands of probes are cheap; a "B <label>" line is flushed first so that a hard crash is attributable, and
// an exception escaping the C interface is caught and reported (for a C caller that is a crash).
static void probe_body(const std::string &label, const char *file, int ident, int hi, int pmax) {
  if (file) {
    InterrogateModuleDef *def = new_def();
    def->file_identifier = ident;
    def->database_filename = file;
    interrogate_request_module(def);
  }
  std::string d = dump_string();
  // the error flag is reported separately; keep it out of the state digest
  for (const char *k : { "\"error_flag\":true", "\"error_flag_after\":true" }) {
    size_t p = d.find(k);
    if (p != std::string::npos) d.replace(p + strlen(k) - 4, 4, "false");
  }
  std::ostringstream sw;
  sweep(sw, -2, hi, pmax, "", false, 0, false, 0);
  // the T lines carry call counts only; keep the S lines
  std::string sws = sw.str(), only_s;
  std::istringstream ls(sws);
  std::string line;
  while (std::getline(ls, line))
    if (!line.empty() && line[0] == 'S' && line.compare(0, 25, "S interrogate_error_flag ") != 0) { only_s += line; only_s += '\n'; }
  bool flag = interrogate_error_flag();
  char hb[32]; snprintf(hb, sizeof hb, "%016llx", fnv(d + "\n--\n" + only_s));
  std::cout << "P " << label << " " << (flag ? 1 : 0) << " " << hb << " " << interrogate_number_of_types() << " "
            << interrogate_number_of_functions() << std::endl;
}

static void probe(const std::string &label, const char *file, int ident, int hi, int pmax) {
  InterrogateDatabase::_global_ptr = nullptr;        // harness is compiled with -fno-access-control
  std::cout << "B " << label << std::endl;
  alarm(g_alarm);
  if (g_nocatch) {
    probe_body(label, file, ident, hi, pmax);
  } else {
    try {
      probe_body(label, file, ident, hi, pmax);
    } catch (const std::exception &e) {
      std::cout.clear();
      std::cout << "P " << label << " THREW " << typeid(e).name() << std::endl;
    } catch (...) {
      std::cout.clear();
      std::cout << "P " << label << " THREW unknown" << std::endl;
    }
  }
  alarm(0);
}

int main(int argc, char **argv) {
  const char *script = nullptr;
  for (int i = 1; i < argc; ++i) {
    if (!strcmp(argv[i], "--trace")) g_trace = true;
    else if (!strcmp(argv[i], "--nocatch")) g_nocatch = true;
    else if (!strcmp(argv[i], "--alarm") && i + 1 < argc) g_alarm = atoi(argv[++i]);
    else script = argv[i];
  }
  if (!script) { std::cerr << "usage: idbdrive [--trace] SCRIPT\n"; return 3; }
  std::ifstream fin;
  std::istream *in = &std::cin;
  if (strcmp(script, "-")) { fin.open(script); if (!fin) { std::cerr << "idbdrive: cannot open script\n"; return 3; } in = &fin; }
  std::ostream &o = std::cout;
  std::string line;
  int lineno = 0;
  while (std::getline(*in, line)) {
    ++lineno;
    std::istringstream ls(line);
    std::vector<std::string> t;
    std::string w;
    while (ls >> w) t.push_back(w);
    if (t.empty() || t[0][0] == '#') continue;
    const std::string &c = t[0];
    auto bad = [&]() { std::cerr << "idbdrive: bad command at line " << lineno << ": " << line << "\n"; exit(3); };
    auto str = [&](size_t i, std::string &s, bool &null) { if (i >= t.size() || !unhex(t[i], s, null)) bad(); };
    auto num = [&](size_t i) -> int { if (i >= t.size()) bad(); return (int)strtoll(t[i].c_str(), nullptr, 10); };
    std::string s1, s2, s3, s4; bool n1, n2, n3, n4;
    if (c == "load") {
      str(1, s1, n1);
      interrogate_request_database(s1.c_str());
      o << "L " << lineno << "\n";
    } else if (c == "module") {
      str(1, s1, n1); str(2, s2, n2); str(3, s3, n3); str(4, s4, n4);
      InterrogateModuleDef *def = new_def();
      def->library_name = keep(s1, n1);
      def->library_hash_name = keep(s2, n2);
      def->module_name = keep(s3, n3);
      def->database_filename = keep(s4, n4);
      def->file_identifier = num(5);
      def->first_index = num(6);
      def->next_index = num(7);
      int nf = num(8), nu = num(9);
      def->num_fptrs = nf;
      def->fptrs = nf > 0 ? new void *[nf] : nullptr;
      for (int i = 0; i < nf; ++i) def->fptrs[i] = (void *)(uintptr_t)(0x100000ULL * (g_modules + 1) + 16ULL * i);
      def->num_unique_names = nu;
      def->unique_names = nu > 0 ? new InterrogateUniqueNameDef[nu] : nullptr;
      size_t p = 10;
      for (int i = 0; i < nu; ++i) {
        std::string nm; bool nn; str(p, nm, nn);
        def->unique_names[i].name = keep(nm, nn);
        def->unique_names[i].index_offset = num(p + 1);
        p += 2;
      }
      for (; p < t.size(); ++p) {
        if (t[p][0] == '!') { int k = atoi(t[p].c_str() + 1); if (k >= 0 && k < nf) def->fptrs[k] = nullptr; }
        else bad();
      }
      interrogate_request_module(def);
      o << "M " << g_modules << " " << def->first_index << " " << def->next_index << "\n";
      ++g_modules;
    } else if (c == "ranges") {
      // index range of every module requested so far (assigned when the file is actually loaded)
      interrogate_number_of_types();
      for (size_t i = 0; i < g_defs.size(); ++i)
        o << "G " << i << " " << g_defs[i]->first_index << " " << g_defs[i]->next_index << "\n";
    } else if (c == "force") {
      interrogate_number_of_types();
      o << "E " << (interrogate_error_flag() ? 1 : 0) << "\n";
    } else if (c == "err") {
      o << "E " << (interrogate_error_flag() ? 1 : 0) << "\n";
    } else if (c == "next") {
      o << "N " << InterrogateDatabase::get_ptr()->get_next_index() << "\n";
    } else if (c == "call") {
      if (t.size() < 3) bad();
      const Fn *f = find(t[1]);
      if (!f) { o << "R " << t[1] << " ? ? = UNKNOWN-FUNCTION\n"; continue; }
      int a = num(2), b = t.size() > 3 ? num(3) : 0;
      o << "B " << lineno << std::endl;
      Val v = invoke(*f, a, b, nullptr);
      o << "R " << f->name << " " << a << " " << (t.size() > 3 ? t[3] : std::string("-")) << " = "; put(o, v); o << std::endl;
    } else if (c == "calls") {
      if (t.size() < 3) bad();
      const Fn *f = find(t[1]);
      if (!f) { o << "R " << t[1] << " ? ? = UNKNOWN-FUNCTION\n"; continue; }
      str(2, s1, n1);
      o << "B " << lineno << std::endl;
      Val v = invoke(*f, 0, 0, n1 ? nullptr : s1.c_str());
      o << "R " << f->name << " " << t[2] << " - = "; put(o, v); o << std::endl;
    } else if (c == "sweep") {
      int lo = num(1), hi = num(2), pmax = num(3);
      std::string only = t.size() > 4 ? t[4] : "";
      bool hi_ = t.size() > 5, hp = t.size() > 6;
      sweep(o, lo, hi, pmax, only, hi_, hi_ ? num(5) : 0, hp, hp ? num(6) : 0);
      o << "Z " << lineno << std::endl;
    } else if (c == "write") {
      str(1, s1, n1); str(3, s2, n2); str(4, s3, n3); str(5, s4, n4);
      InterrogateDatabase *db = InterrogateDatabase::get_ptr();
      interrogate_number_of_types();
      InterrogateModuleDef def; memset(&def, 0, sizeof def);
      def.file_identifier = num(2);
      def.library_name = n2 ? nullptr : s2.c_str();
      def.library_hash_name = n3 ? nullptr : s3.c_str();
      def.module_name = n4 ? nullptr : s4.c_str();
      std::ofstream out(s1.c_str(), std::ios::binary);
      db->write(out, &def);
      out.close();
      o << "W " << lineno << " " << (out.fail() ? 0 : 1) << "\n";
    } else if (c == "dump") {
      str(1, s1, n1);
      std::string d = dump_string();
      std::ofstream out(s1.c_str(), std::ios::binary);
      out << d; out.close();
      o << "D " << lineno << "\n";
    } else if (c == "probe") {
      if (t.size() < 6) bad();
      str(2, s1, n1);
      probe(t[1], n1 ? nullptr : keep(s1, false), num(3), num(4), num(5));
    } else if (c == "prefixes") {
      str(1, s1, n1); str(2, s2, n2);
      int hi = num(3), pmax = num(4);
      std::ifstream f(s1.c_str(), std::ios::binary);
      std::stringstream buf; buf << f.rdbuf();
      std::string data = buf.str();
      for (size_t k = 5; k < t.size(); ++k) {
        long L = strtol(t[k].c_str(), nullptr, 10);
        if (L < 0 || (size_t)L > data.size()) bad();
        std::string path = s2 + "/p" + t[k] + ".in";
        { std::ofstream pf(path.c_str(), std::ios::binary); pf.write(data.data(), L); }
        probe(t[k], keep(path, false), 0, hi, pmax);
        unlink(path.c_str());
      }
    } else {
      bad();
    }
  }
  o.flush();
  return 0;
}
